#!/usr/bin/env python3
"""Regenerates /verif/MANIFEST.json from the table below (keeps the file schema-valid)."""
import json, subprocess, os
HERE = os.path.dirname(os.path.dirname(os.path.abspath(__file__)))

def hooks_commits():
    out = subprocess.run(["git", "-C", "/repo", "log", "--format=%H %s"], capture_output=True, text=True).stdout
    return [l.split()[0] for l in out.splitlines() if " verif hook" in l]

CHECKS = json.load(open(os.path.join(HERE, "tools", "checks.json")))
props = [json.loads(l) for l in open(os.path.join(HERE, "properties.jsonl"))]
ids = [p["id"] for p in props]
claimed = {c["property_id"] for c in CHECKS["checks"]}
checks = []
for c in CHECKS["checks"]:
    pid = c["property_id"]
    checks.append({
        "property_id": pid,
        "quick_cmd": f"./check {pid} quick",
        "thorough_cmd": f"./check {pid} thorough",
        "evidence_file": f"/verif/evidence/{pid}.json",
        "replay_cmd_template": f"./check {pid} quick --replay {{path}}",
        "engine": "vcheck",
        "level_claimed": {"category": "exploration", "text": c["text"], "design_ref": c.get("design_ref", f"DESIGN.md section 4, {pid}")},
        "level_note": c["note"],
        "technique": c["technique"],
    })
na = [{"property_id": i, "reason": CHECKS["not_applicable"].get(i, "check not yet built in this session (planned in DESIGN.md section 4); no claim is made")} for i in ids if i not in claimed]
m = {
    "version": 1,
    "setup_cmd": "cd /verif && CARGO_NET_OFFLINE=true cargo build --offline --bin vcheck",
    "hooks": {
        "guard": "cargo feature dswd_vpncloud_verif (#[cfg(feature = \"dswd_vpncloud_verif\")])",
        "enable": "the sources of /repo are compiled as a library by /verif/vpnlib (its [lib] path is /repo/src/main.rs) with feature dswd_vpncloud_verif in its default features; no RUSTFLAGS involved",
        "baseline_off_cmd": "cd /repo && cargo nextest run --workspace --no-fail-fast --tool-config-file pb:/w/lib/nextest.toml --profile pb --test-threads 8 --offline  (fallback: cargo test --workspace --no-fail-fast --offline); the guard is a cargo feature that is off by default, so the plain baseline command is the guard-off run",
        "source_commits": hooks_commits(),
        "add_only": True,
    },
    "engines": [
        {"name": "vcheck", "path": "/verif/harness", "serves_properties": sorted(claimed),
         "kind_free_text": "Rust harness linking the real /repo sources: bounded-exhaustive enumeration, proptest (TestRunner, seeded, shrinking) and model-based histories over simulators that own clock, network and interface; explicit reference-model / round-trip / differential / metamorphic oracles; JSON replay files"},
    ] + CHECKS.get("extra_engines", []),
    "checks": checks,
    "notes": CHECKS.get("notes", ""),
    "not_applicable": na,
}
json.dump(m, open(os.path.join(HERE, "MANIFEST.json"), "w"), indent=1)
print("claimed", sorted(claimed), "not_applicable", [x["property_id"] for x in na])
