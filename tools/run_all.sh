#!/bin/bash
# runs every quick check once and validates the evidence files
cd "$(dirname "$0")/.."
TIER=${1:-quick}
fail=0
for id in C01 C02 C03 C04 C05 C06 C07 C08 C09 C10 C11 C12 C13 C14 C15 C16 C17 C18 C19 C20; do
  rm -f evidence/$id.json
  s=$(date +%s.%N)
  out=$(./check $id $TIER 2>/dev/null); rc=$?
  e=$(date +%s.%N)
  printf "%s rc=%d %.1fs  %s\n" $id $rc $(echo "$e - $s" | bc) "$(echo "$out" | tail -1 | cut -c1-150)"
  [ $rc -ne 0 ] && { fail=1; echo "$out" | grep -E "VIOLATION|signature|what" | head -6 | cut -c1-300; }
done
python3-vt - <<'PY'
import json,jsonschema,glob
s=json.load(open('/root/.vp/EVIDENCE.schema.json'))
for f in sorted(glob.glob('/verif/evidence/*.json')):
    try:
        jsonschema.validate(json.load(open(f)), s)
    except Exception as ex:
        print('INVALID', f, str(ex)[:200])
print('evidence files:', len(glob.glob('/verif/evidence/*.json')))
PY
exit $fail
