#!/bin/bash
# tools/eval_seed.sh <patch.diff> <check id> [more check ids...]
# applies the seeded change to /repo, runs the quick checks, and undoes it straight afterwards.
set -u
P="$(readlink -f "$1")"; shift
cd /verif
git -C /repo diff --quiet || { echo "/repo not clean"; exit 2; }
git -C /repo apply "$P" || { echo "patch does not apply"; exit 2; }
for id in "$@"; do
  out=$(VERIF_SEED=${VERIF_SEED:-1} ./check $id ${TIER:-quick} 2>/dev/null); rc=$?
  echo "$id rc=$rc $(echo "$out" | grep -c VIOLATION) violations; $(echo "$out" | grep -m2 signature | tr '\n' ' ' | cut -c1-300)"
done
git -C /repo checkout -- .
git -C /repo status --short | head -3
