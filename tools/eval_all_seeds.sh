#!/bin/bash
# tools/eval_all_seeds.sh [slots]   - runs every seeded change and own mutant against the check of its property in
# isolated scratch copies (tools/eval_seed_iso.sh), `slots` at a time (default 4); one line each in seeded/RESULTS.txt order.
cd "$(dirname "$0")/.."
SLOTS=${1:-4}
ls -d seeded/S* > /tmp/ev-list.txt
run_slot() {
  k=$1
  i=0
  while read d; do
    if [ $((i % SLOTS)) -eq $k ]; then
      prop=$(python3 -c "import json;print(json.load(open('$d/meta.json'))['breaks_property'])")
      r=$(EV_SLOT=$k tools/eval_seed_iso.sh "$d/patch.diff" $prop 2>&1 | grep -E "^C[0-9][0-9] rc=" | head -1 | cut -c1-200)
      echo "$(basename $d) :: $r"
    fi
    i=$((i+1))
  done < /tmp/ev-list.txt
}
for k in $(seq 0 $((SLOTS-1))); do run_slot $k > /tmp/ev-slot-$k.log 2>&1 & done
wait
cat /tmp/ev-slot-*.log | sort
