#!/bin/bash
# tools/distill_corpus.sh <work-corpus-root> [target...]
# Merges the inputs a libFuzzer campaign accumulated (fuzz/corpus-work/<target> of a thorough run) into the committed seed
# corpus /verif/corpus/<target> with libFuzzer's -merge=1 (keeps only inputs that add coverage), so that every tier's
# in-process corpus replay walks the histories the coverage-guided search found interesting.
set -u
cd "$(dirname "$0")/.."
ROOT="$(readlink -f "$1")"; shift
TARGETS=("$@")
[ ${#TARGETS[@]} -eq 0 ] && TARGETS=(hist_c03 hist_c05 hist_c07 hist_c10 hist_c11 hist_c12 hist_c13)
export CARGO_NET_OFFLINE=true
for t in "${TARGETS[@]}"; do
  [ -d "$ROOT/$t" ] || { echo "$t: no work corpus under $ROOT"; continue; }
  (cd fuzz && cargo +nightly fuzz build "$t" >/dev/null 2>&1) || { echo "$t: build failed"; continue; }
  mkdir -p "corpus/$t"
  before=$(ls "corpus/$t" | wc -l)
  ASAN_OPTIONS=detect_odr_violation=0 fuzz/target/x86_64-unknown-linux-gnu/release/$t -merge=1 -max_len=${MAXLEN:-4096} "corpus/$t" "$ROOT/$t" >/tmp/distill-$t.log 2>&1
  after=$(ls "corpus/$t" | wc -l)
  echo "$t: $before -> $after files ($(du -sh corpus/$t | cut -f1))"
done
