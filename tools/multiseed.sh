#!/bin/bash
# runs every quick check with several seeds; any non-zero exit is printed
cd "$(dirname "$0")/.."
for s in "$@"; do
  for id in C01 C02 C03 C04 C05 C06 C07 C08 C09 C10 C11 C12 C13 C14 C15 C16 C17 C18 C19 C20; do
    out=$(VERIF_SEED=$s ./check $id quick 2>/dev/null); rc=$?
    echo "seed=$s $id rc=$rc $(echo "$out" | tail -1 | cut -c1-120)"
    [ $rc -ne 0 ] && echo "$out" | grep -E "VIOLATION|signature|what" | head -6 | cut -c1-400
  done
done
