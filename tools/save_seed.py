#!/usr/bin/env python3
"""tools/save_seed.py <seed-id> <property> <srcdir> "<needs>" "<caught-by / notes>" """
import sys, os, shutil, json, subprocess
sid, prop, src, needs, notes = sys.argv[1:6]
d = f"/verif/seeded/{sid}"
os.makedirs(d, exist_ok=True)
for f in ["patch.diff", "demo.diff", "README.md"]:
    if os.path.exists(os.path.join(src, f)):
        shutil.copy(os.path.join(src, f), os.path.join(d, f))
head = subprocess.run(["git", "-C", "/repo", "rev-parse", "--short", "HEAD"], capture_output=True, text=True).stdout.strip()
meta = {
    "seed": sid, "breaks_property": prop, "origin": "independent sub-agent given only the property text and a scratch worktree",
    "repo_head_when_seeded": head,
    "needs_to_manifest": needs,
    "confirmed": "tools/verify_seed.sh: (a) HEAD+demo.diff passes, (b) HEAD+patch.diff+demo.diff fails in the demo test, (c) HEAD+patch.diff passes the existing suite",
    "evaluation": notes,
    "how_to_run": f"tools/eval_seed.sh seeded/{sid}/patch.diff {prop}   (applies the patch to /repo, runs ./check {prop} quick, reverts)",
}
json.dump(meta, open(os.path.join(d, "meta.json"), "w"), indent=1)
print("saved", d)
