#!/bin/bash
# tools/verify_seed.sh <dir with patch.diff and demo.diff>
# confirms in a scratch worktree of /repo (outside /repo and /verif): (a) HEAD + demo passes, (b) HEAD + patch + demo
# fails in a non-flaky test, (c) HEAD + patch: the existing suite passes. Prints a one-line verdict.
set -u
D="$(readlink -f "$1")"
WT=/tmp/vfy-seed
export CARGO_TARGET_DIR=/tmp/vfy-seed-target CARGO_NET_OFFLINE=true
[ -d $WT ] || git -C /repo worktree add -q --detach $WT HEAD
cd $WT && git checkout -q --detach $(git -C /repo rev-parse HEAD) && git checkout -q -- . && git clean -fdq
mkdir -p $WT/target
fails() { cargo test --offline 2>&1 | grep -E "^test .* FAILED$" | grep -v "beacon::encode_decode_cmd" | sort -u; }
git apply "$D/demo.diff" || { echo "VERDICT demo.diff does not apply"; exit 1; }
A=$(fails)
git apply "$D/patch.diff" || { echo "VERDICT patch.diff does not apply"; exit 1; }
B=$(fails)
git checkout -q -- . && git clean -fdq && mkdir -p $WT/target && git apply "$D/patch.diff"
C=$(fails)
# compile check of (c)
cargo test --offline --no-run >/dev/null 2>&1 || C="$C [does not compile]"
git checkout -q -- . && git clean -fdq
echo "(a) demo only failures: [${A}]"
echo "(b) patch+demo failures: [${B}]"
echo "(c) patch only failures: [${C}]"
if [ -z "$A" ] && [ -n "$B" ] && [ -z "$C" ]; then echo "VERDICT confirmed"; else echo "VERDICT NOT-confirmed"; fi
