#!/bin/bash
# tools/eval_some_seeds.sh <slots> <property id>...   - like eval_all_seeds.sh, restricted to seeds of the given properties
cd "$(dirname "$0")/.."
SLOTS=${1:-3}; shift
PROPS=" $* "
: > /tmp/ev-list.txt
for d in seeded/S*; do
  prop=$(python3 -c "import json;print(json.load(open('$d/meta.json'))['breaks_property'])")
  case "$PROPS" in *" $prop "*) echo "$d" >> /tmp/ev-list.txt;; esac
done
run_slot() {
  k=$1; i=0
  while read d; do
    if [ $((i % SLOTS)) -eq $k ]; then
      prop=$(python3 -c "import json;print(json.load(open('$d/meta.json'))['breaks_property'])")
      r=$(EV_SLOT=$k tools/eval_seed_iso.sh "$d/patch.diff" $prop 2>&1 | grep -E "^C[0-9][0-9] rc=" | head -1 | cut -c1-200)
      echo "$(basename $d) :: $r"
    fi
    i=$((i+1))
  done < /tmp/ev-list.txt
}
for k in $(seq 0 $((SLOTS-1))); do run_slot $k > /tmp/ev-slot-$k.log 2>&1 & done
wait
cat /tmp/ev-slot-*.log | sort
