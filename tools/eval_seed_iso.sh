#!/bin/bash
# tools/eval_seed_iso.sh <patch.diff> <check id> [more ids]      (EV_SLOT=n selects the scratch slot, default 0)
# Evaluates a seeded change without touching /repo or /verif/target: a scratch worktree of /repo (HEAD + patch) and a
# scratch copy of /verif whose vpnlib points at that worktree, both under /tmp/ev-<slot>, with their own target directory
# (kept between calls for incremental builds; remove with tools/eval_seed_iso.sh --clean).
set -u
if [ "${1:-}" = "--clean" ]; then
  for w in /tmp/ev-*; do [ -d "$w/repo" ] && git -C /repo worktree remove --force "$w/repo"; rm -rf "$w"; done
  git -C /repo worktree prune; exit 0
fi
P="$(readlink -f "$1")"; shift
W=/tmp/ev-${EV_SLOT:-0}
mkdir -p $W
HEAD=$(git -C /repo rev-parse HEAD)
[ -d $W/repo ] || git -C /repo worktree add -q --detach $W/repo $HEAD
git -C $W/repo checkout -q --detach $HEAD && git -C $W/repo checkout -q -- . && git -C $W/repo clean -fdq
git -C $W/repo apply "$P" || { echo "patch does not apply"; exit 2; }
rsync -a --delete --exclude target --exclude .git --exclude replays --exclude 'fuzz/target' --exclude 'fuzz/corpus-work' --exclude 'fuzz/artifacts' --exclude evidence ${VERIF_SRC:-/verif}/ $W/verif/
mkdir -p $W/verif/evidence
sed -i "s|/repo/src/main.rs|$W/repo/src/main.rs|" $W/verif/vpnlib/Cargo.toml
cd $W/verif
export CARGO_TARGET_DIR=$W/target
for id in "$@"; do
  out=$(VERIF_SEED=${VERIF_SEED:-1} ./check $id ${TIER:-quick} 2>&1); rc=$?
  echo "$id rc=$rc $(echo "$out" | grep -c VIOLATION) violations; $(echo "$out" | grep -m2 signature | tr '\n' ' ' | cut -c1-300)"
  [ $rc -eq 2 ] && echo "$out" | tail -5
done
git -C $W/repo checkout -q -- .
