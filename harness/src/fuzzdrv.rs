//! Driver for the coverage-guided (libFuzzer) campaigns of the thorough tier.
//! Implemented in a later step; see fuzz/ and DESIGN.md section 2.
use crate::engine::Ctx;

pub fn run_campaign(_ctx: &Ctx, _target: &str, _runs: u64) {}
