//! Bodies of the libFuzzer targets. Each decodes the raw bytes into structured arguments and runs
//! the same oracle functions the vcheck properties use; a violation aborts the process so that
//! libFuzzer saves the input. `run_target` is also used by vcheck to replay saved inputs.

use crate::engine::{Ctx, Tier, Viol};
use std::sync::OnceLock;

static CTX: OnceLock<Ctx> = OnceLock::new();

fn ctx_for(id: &str) -> &'static Ctx {
    CTX.get_or_init(|| {
        crate::sim::install_panic_hook();
        crate::sim::thread_setup();
        Ctx::new(id, Tier::Thorough, 0, true)
    })
}

pub fn property_of(target: &str) -> &'static str {
    match target {
        "decode_codecs" => "C16",
        "beacon_text" => "C17",
        "dissect" => "C19",
        "hist_c03" => "C03",
        "hist_c05" => "C05",
        "hist_c07" => "C07",
        "hist_c11" => "C11",
        "hist_c12" => "C12",
        "hist_c13" => "C13",
        "hist_c10" => "C10",
        _ => "C08",
    }
}

/// Runs one input through the target's oracle; returns the violations.
pub fn run_target(ctx: &Ctx, target: &str, data: &[u8]) -> Vec<Viol> {
    match target {
        "decode_codecs" => {
            if data.is_empty() {
                return vec![];
            }
            let which = ["nodeinfo", "init", "rotation"][(data[0] % 3) as usize];
            let body = &data[1..];
            if which == "init" {
                let pk = [0x42u8; 32];
                let salt = [9u8, 9, 9, 9];
                let mut b = salt.to_vec();
                b.extend_from_slice(&crate::props::c16::key_selector(&pk, &salt));
                b.extend_from_slice(body);
                crate::props::c16::check_decode_bytes(ctx, which, &b, &[pk])
            } else {
                crate::props::c16::check_decode_bytes(ctx, which, body, &[])
            }
        }
        "beacon_text" => {
            if data.len() < 2 {
                return vec![];
            }
            let pws = crate::props::c17::passwords();
            let pw = &pws[data[0] as usize % pws.len()];
            let text = String::from_utf8_lossy(&data[1..]).to_string();
            crate::props::c17::check_text(ctx, pw, &text)
        }
        "dissect" => {
            if data.is_empty() {
                return vec![];
            }
            let proto = if data[0] & 1 == 0 { "frame" } else { "packet" };
            crate::props::c19::check_case(ctx, proto, &data[1..])
        }
        "hist_c03" | "hist_c05" | "hist_c07" | "hist_c11" | "hist_c12" | "hist_c13" | "hist_c10" => run_history(ctx, target, data),
        _ => {
            // node_datagrams: byte 0 = receiver state, then records: [source selector][len lo][len hi][bytes...]
            if data.len() < 2 {
                return vec![];
            }
            use crate::props::c08::{Case, Inj, Src};
            use crate::props::lab::ALL_STATES;
            let state = ALL_STATES[data[0] as usize % ALL_STATES.len()];
            let mut injections = vec![];
            let mut i = 1;
            while i + 3 <= data.len() && injections.len() < 24 {
                let sel = data[i];
                let len = (data[i + 1] as usize | ((data[i + 2] as usize) << 8)) % 2000;
                i += 3;
                let end = (i + len).min(data.len());
                let bytes = &data[i..end];
                i = end;
                let src = [Src::Natural, Src::Stranger, Src::PeerP, Src::OtherPeer][(sel & 3) as usize].clone();
                if sel & 0x80 != 0 && sel & 0x40 != 0 {
                    injections.push(Inj::Tick);
                } else if sel & 0x80 != 0 && bytes.len() >= 3 {
                    // derived from a genuine datagram: kind, truncation, one byte substitution
                    injections.push(Inj::Derived {
                        src,
                        kind: bytes[0] % 9,
                        len: if bytes[1] == 0 { 100_000 } else { 400 - (bytes[1] as usize) },
                        pos: if sel & 0x20 != 0 { usize::MAX } else { bytes[1] as usize + bytes.len() },
                        val: bytes[2],
                    });
                } else {
                    injections.push(Inj::Datagram(src, crate::engine::hex(bytes)));
                }
            }
            crate::props::c08::run_case(ctx, &Case { state, injections, stale: (data[0] as usize / ALL_STATES.len()) as u8 % 4, age: if data[0] >= 128 { (data[0] - 128) % 40 } else { 0 } })
        }
    }
}

/// History targets: the bytes are decoded into an operation sequence (schedule / history) of the property's own
/// interpreter, so coverage feedback steers the search through interleavings instead of through parsers.
/// Byte 0 (and 1) select the configuration, every further byte (sometimes with an argument byte) is one operation.
pub fn decode_history(target: &str, data: &[u8]) -> Option<serde_json::Value> {
    if data.len() < 2 {
        return None;
    }
    let cfg = data[0];
    let body = &data[1..];
    let counts = [1usize, 1, 1, 2, 5, 30, 61, 121];
    Some(match target {
        "hist_c03" => {
            use crate::props::c03::{Case, Op};
            let mut ops = vec![];
            for &b in body.iter().take(96) {
                let k = (b >> 3) % 8;
                ops.push(match b % 8 {
                    0 | 1 => Op::Seal,
                    2 | 3 | 4 => Op::Deliver(k),
                    5 => Op::Tick,
                    6 => Op::Forge(k),
                    _ => Op::Rotate,
                });
            }
            let mode = (cfg >> 2) % 3;
            if mode != 0 {
                ops.retain(|o| !matches!(o, Op::Rotate | Op::Forge(_)));
            }
            serde_json::json!({"mode": mode, "case": Case { cipher: cfg % 3, ops }})
        }
        "hist_c05" => {
            use crate::props::c05::{Act, Case};
            let mut acts = vec![];
            for &b in body.iter().take(120) {
                let k = (b >> 3) % 4;
                let n = counts[((b >> 3) & 7) as usize];
                match b % 8 {
                    0 => acts.push(Act::InitA),
                    1 => acts.push(Act::InitB),
                    2 => acts.push(Act::Deliver(k)),
                    3 => acts.push(Act::DeliverNewest),
                    4 => acts.push(Act::Dup(k)),
                    5 => acts.push(Act::Drop(k)),
                    6 => acts.extend(std::iter::repeat(Act::TickA).take(n)),
                    _ => acts.extend(std::iter::repeat(Act::TickB).take(n)),
                }
                if acts.len() > 700 {
                    break;
                }
            }
            serde_json::to_value(Case { orientation: cfg & 1 == 1, acts, liveness: cfg & 2 == 2 }).ok()?
        }
        "hist_c07" => {
            use crate::props::c07::{Act, Case};
            let mut acts = vec![];
            for &b in body.iter().take(80) {
                let k = (b >> 3) % 4;
                acts.push(match b % 8 {
                    0 => Act::CycleA,
                    1 => Act::CycleB,
                    2 => Act::TicksA((b >> 3) * 4 + 1),
                    3 => Act::TicksB((b >> 3) * 4 + 1),
                    4 => Act::Deliver(k),
                    5 => Act::DeliverNewest,
                    6 => Act::Dup(k),
                    _ => Act::Drop(k),
                });
            }
            serde_json::to_value(Case { orientation: cfg & 1 == 1, initiator: (cfg >> 1) & 1, acts, lossless_cycles: if cfg & 4 == 4 { 8 } else { 0 }, start: (cfg >> 3) % 3 }).ok()?
        }
        "hist_c11" => {
            use crate::props::c11::{Op, TableCase};
            let (st, ct) = [(5u32, 12u32), (12, 5), (1, 1), (6, 6)][(cfg % 4) as usize];
            let mut ops = vec![];
            let mut i = 0;
            while i < body.len() && ops.len() < 200 {
                let b = body[i];
                i += 1;
                let peer = (b >> 3) % 3;
                let arg = body.get(i).copied().unwrap_or(0);
                match b % 8 {
                    0 | 1 => {
                        i += 1;
                        let mut set = vec![];
                        // two ranges out of nine from one argument byte, optionally a third from the op byte
                        if arg != 0xff {
                            let nr = crate::props::c11::N_RANGES;
                            set.push(arg % nr);
                            if arg >= nr {
                                set.push((arg / nr) % nr);
                            }
                            if b & 0x40 != 0 {
                                set.push((arg / 16 + (b >> 7)) % nr);
                            }
                        }
                        ops.push(Op::Announce(peer, set));
                    }
                    2 => ops.push(Op::Disconnect(peer)),
                    3 | 4 | 7 => ops.push(Op::Lookup((b >> 3) % crate::props::c11::N_ADDRS)),
                    5 => ops.push(Op::Tick([0u32, 1, 2, st.saturating_sub(1), st, st + 1, ct.saturating_sub(1), ct + 1][((b >> 3) & 7) as usize])),
                    _ => {
                        i += 1;
                        ops.push(Op::Learn(peer, arg % crate::props::c11::N_ADDRS));
                    }
                }
            }
            serde_json::to_value(TableCase { switch_timeout: st, claim_timeout: ct, ops, strict_learning: false }).ok()?
        }
        "hist_c12" => {
            use crate::props::c12::{Case, Step};
            let mut steps = vec![];
            let mut i = 0;
            while i < body.len() && steps.len() < 80 {
                let b = body[i];
                i += 1;
                let peer = (b >> 3) % 3;
                let arg = body.get(i).copied().unwrap_or(0);
                match b % 8 {
                    0 | 1 | 2 => {
                        i += 1;
                        let n = ((b >> 5) % 5) as usize;
                        let list: Vec<u8> = (0..n).map(|j| (arg >> (2 * j.min(3))) & 3).collect();
                        steps.push(Step::Announce(peer, list));
                    }
                    3 => steps.push(Step::Disconnect(peer)),
                    4 | 5 => steps.push(Step::Probe),
                    6 => {
                        i += 1;
                        steps.push(Step::Learn(peer, arg % 4));
                    }
                    _ => steps.push(Step::Tick([0u32, 1, 3, 4, 5, 7, 8, 9][((b >> 3) & 7) as usize])),
                }
            }
            serde_json::to_value(Case { claim_timeout: 8, switch_timeout: 5, steps }).ok()?
        }
        "hist_c13" => {
            use crate::props::c13::{Case, Op, SWITCH_TIMEOUT};
            let nodes = 3 + (cfg & 1);
            let mut ops = vec![];
            let mut i = 0;
            while i < body.len() && ops.len() < 40 {
                let b = body[i];
                i += 1;
                match b % 8 {
                    0..=4 => {
                        let arg = body.get(i).copied().unwrap_or(0);
                        i += 1;
                        ops.push(Op::Frame { at: (b >> 3) % nodes, src: arg % 3, dst: (arg / 3) % 3, vlan: (arg / 9) % 5, pcp: (b >> 5) * 2 + (arg >> 7) });
                    }
                    5 | 6 => ops.push(Op::Wait([0u32, 1, 2, SWITCH_TIMEOUT - 1, SWITCH_TIMEOUT, SWITCH_TIMEOUT + 1, SWITCH_TIMEOUT + 2, 3][((b >> 3) & 7) as usize])),
                    _ => ops.push(Op::Leave((b >> 3) % nodes)),
                }
            }
            serde_json::to_value(Case { nodes, hub: cfg & 6 == 2, ops, router: cfg & 6 == 4 }).ok()?
        }
        "hist_c10" => {
            use crate::props::c10::{Case, Dst, MeshMode, Op};
            let nodes = 2 + (cfg & 3).min(3);
            let mode = [MeshMode::Router, MeshMode::Switch, MeshMode::Hub][((cfg >> 2) % 3) as usize];
            let mut ops = vec![];
            for &b in body.iter().take(60) {
                let at = (b >> 3) % nodes;
                let h = b >> 6;
                ops.push(match b % 8 {
                    0 | 1 => Op::Read { at, dst: Dst::Node(h % nodes), host: (b >> 5) % 3 + 5 * (cfg >> 5 & 3) },
                    2 => Op::Read { at, dst: Dst::Unknown, host: h % 3 },
                    3 => Op::Read { at, dst: Dst::Broadcast, host: h % 3 },
                    4 => Op::Read { at, dst: Dst::Own, host: h % 3 },
                    5 => Op::Read { at, dst: Dst::Roaming(h & 1), host: (b >> 5) % 3 },
                    6 => Op::Read { at, dst: Dst::Node(h % nodes), host: 3 + ((b >> 5) & 1) },
                    _ => Op::Outsider { at, kind: b >> 5 },
                });
            }
            serde_json::to_value(Case { mode, nodes, ops, default_route: cfg & 0x10 != 0, plain_mask: if cfg & 0x80 != 0 { 0b1011 } else { 0 } }).ok()?
        }
        _ => return None,
    })
}

fn run_history(ctx: &Ctx, target: &str, data: &[u8]) -> Vec<Viol> {
    let v = match decode_history(target, data) {
        Some(v) => v,
        None => return vec![],
    };
    match target {
        "hist_c03" => {
            let case: crate::props::c03::Case = match serde_json::from_value(v["case"].clone()) {
                Ok(c) => c,
                Err(_) => return vec![],
            };
            match v["mode"].as_u64() {
                Some(0) => crate::props::c03::run_case(ctx, &case),
                Some(m) => crate::props::c03::run_pc_case(ctx, m == 1, &case.ops),
                None => vec![],
            }
        }
        "hist_c05" => serde_json::from_value(v).map(|c| crate::props::c05::run_case(ctx, &c).viols).unwrap_or_default(),
        "hist_c07" => serde_json::from_value(v).map(|c| crate::props::c07::run_case(ctx, &c).viols).unwrap_or_default(),
        "hist_c11" => serde_json::from_value(v).map(|c| crate::props::c11::run_table_case(ctx, &c)).unwrap_or_default(),
        "hist_c12" => serde_json::from_value(v).map(|c| crate::props::c12::run_case(ctx, &c)).unwrap_or_default(),
        "hist_c13" => serde_json::from_value(v).map(|c| crate::props::c13::run_case(ctx, &c)).unwrap_or_default(),
        "hist_c10" => serde_json::from_value(v).map(|c| crate::props::c10::run_case(ctx, &c)).unwrap_or_default(),
        _ => vec![],
    }
}

pub const HISTORY_TARGETS: [&str; 7] = ["hist_c03", "hist_c05", "hist_c07", "hist_c11", "hist_c12", "hist_c13", "hist_c10"];

/// Quick-tier use of the fuzz targets: every committed corpus input of `target` (seed inputs and the inputs kept
/// from earlier campaigns because they reached new coverage) is run in-process through the same oracle.
pub fn replay_corpus(ctx: &Ctx, target: &str) {
    let dir = format!("{}/corpus/{}", crate::engine::verif_dir(), target);
    let mut files: Vec<std::path::PathBuf> = std::fs::read_dir(&dir).map(|rd| rd.flatten().map(|e| e.path()).collect()).unwrap_or_default();
    files.sort();
    let n = files.len() as u64;
    let all: Vec<Vec<u8>> = files.iter().filter_map(|f| std::fs::read(f).ok()).chain(seed_inputs(target)).collect();
    let total = all.len() as u64;
    ctx.par_range(total, |_, i| {
        let data = &all[i as usize];
        let v = run_target(ctx, target, data);
        let v: Vec<Viol> = v
            .into_iter()
            .map(|mut x| {
                x.case = serde_json::json!({"kind": "fuzz", "target": target, "bytes": crate::engine::hex(data)});
                x
            })
            .collect();
        ctx.report(v);
    });
    ctx.subspace(&format!("committed corpus of fuzz target {} replayed in-process ({} files + {} generated seeds)", target, n, total - n), total, true);
}

/// libFuzzer entry: abort on violation so that the input is saved as an artefact.
pub fn fuzz_entry(target: &str, data: &[u8]) {
    let ctx = ctx_for(property_of(target));
    let v = run_target(ctx, target, data);
    if let Some(x) = v.iter().find(|x| !ctx.is_known(&x.sig)) {
        eprintln!("VERIF-FUZZ-VIOLATION target={} sig={} :: {}", target, x.sig, x.desc);
        std::process::abort();
    }
}

/// small valid inputs for the seed corpus of a target (genuine encodings produced by the real code)
pub fn seed_inputs(target: &str) -> Vec<Vec<u8>> {
    let mut out: Vec<Vec<u8>> = vec![];
    match target {
        "decode_codecs" => {
            use crate::props::c16::*;
            let d = NiDesc {
                node_id: [7; 16],
                peers: vec![(Some([9; 16]), vec!["10.0.0.1:3210".into(), "[2001:db8::1]:3210".into()]), (None, vec![])],
                claims: vec![(vec![10, 0, 0, 0], 8), (vec![2, 0, 0, 0, 0, 1], 48)],
                peer_timeout: Some(300),
                addrs: vec!["192.168.1.1:3210".into()],
                unknown: vec![(2, 50, vec![1, 2, 3])],
            };
            for u in [false, true] {
                let mut v = vec![0u8];
                v.extend(ref_encode_nodeinfo(&d, u));
                out.push(v);
            }
            let kp = crate::sim::keypair_from_seed(9);
            for stage in 1..=3u8 {
                let id = InitDesc { stage, hash: [3; 20], ecdh: vec![5; 32], algos: vec![(0, 0), (1, 600f32.to_bits()), (3, 400f32.to_bits())], payload: vec![8; 40], seed: [0; 32], unknown: vec![(1, 9, vec![4, 4])] };
                let b = ref_encode_init(&id, &kp, [9, 9, 9, 9], true);
                let mut v = vec![1u8];
                v.extend_from_slice(&b[8..]);
                out.push(v);
            }
            let mut r = vec![2u8];
            r.extend_from_slice(&1u64.to_be_bytes());
            r.push(32);
            r.extend_from_slice(&[6; 32]);
            r.push(32);
            r.extend_from_slice(&[7; 32]);
            out.push(r);
        }
        "beacon_text" => {
            let pws = crate::props::c17::passwords();
            for (i, pw) in pws.iter().take(6).enumerate() {
                vpncloud::util::MockTimeSource::set_time(2000 * 3600);
                let ser = vpncloud::beacon::BeaconSerializer::<vpncloud::util::MockTimeSource>::new(pw.as_bytes());
                let b = ser.encode(&["1.2.3.4:5678".parse().unwrap(), "[2001:db8::1]:53".parse().unwrap()]);
                let mut v = vec![i as u8];
                v.extend_from_slice(format!("noise {} more-noise {}", b, &b[..9]).as_bytes());
                out.push(v);
            }
        }
        "dissect" => {
            let mut f = vec![0u8];
            f.extend(crate::sim::eth_frame([1; 6], [2; 6], Some(0x2067), b"x"));
            out.push(f);
            let mut p = vec![1u8];
            p.extend(crate::sim::ipv4_packet([10, 0, 0, 1], [10, 0, 0, 2], b"y"));
            out.push(p);
            let mut p6 = vec![1u8, 0x60];
            p6.extend_from_slice(&[0; 45]);
            out.push(p6);
        }
        "hist_c03" => {
            for cfg in 0..9u8 {
                out.push(vec![cfg, 0, 0, 2, 5, 0, 10, 5, 2, 5, 10, 6, 7, 0, 2]);
            }
        }
        "hist_c05" => {
            for cfg in 0..4u8 {
                out.push(vec![cfg, 0, 2, 2, 2]);
                out.push(vec![cfg, 0, 1, 2, 2, 3, 4, 2, 6, 7, 2]);
                out.push(vec![cfg, 0, 5, 6 + 8 * 7, 2, 2, 2]);
            }
        }
        "hist_c07" => {
            for cfg in 0..8u8 {
                out.push(vec![cfg, 4, 0, 4, 1, 4, 0, 5, 1, 4]);
                out.push(vec![cfg, 7, 0, 1, 0, 6, 4, 4, 1, 0]);
            }
        }
        "hist_c11" => {
            for cfg in 0..4u8 {
                out.push(vec![cfg, 0, 1 + 9 * 4, 8, 3, 3, 3, 5 + 8, 3, 0, 1, 3, 5 + 8 * 5, 3, 2, 3, 6, 2, 3 + 16]);
            }
        }
        "hist_c12" => {
            out.push(vec![0, 0x40, 0b0100, 4, 0x20, 0, 4, 6, 2, 3, 4, 7 + 8 * 6, 4]);
            out.push(vec![0, 0x60 + 8, 0b100100, 4, 0x40 + 8, 0b0010, 4, 3 + 8, 4]);
        }
        "hist_c13" => {
            for cfg in 0..6u8 {
                out.push(vec![cfg, 0, 1, 8, 3, 5 + 8 * 4, 8, 3, 7 + 8, 0, 1]);
            }
        }
        "hist_c10" => {
            for cfg in 0..12u8 {
                out.push(vec![cfg, 0, 8 + 64, 2, 3, 4, 5, 5 + 8, 6, 7, 16 + 128]);
            }
        }
        _ => {
            // node_datagrams: one record per genuine kind, derived form
            for st in 0..7u8 {
                let mut v = vec![st];
                for kind in 0..9u8 {
                    v.extend_from_slice(&[0x80 | (kind & 3), 3, 0, kind, 10 * kind, 0xff]);
                    v.extend_from_slice(&[0xa0 | (kind & 3), 3, 0, kind, 0, 0]);
                }
                v.extend_from_slice(&[0xc0, 0, 0]);
                v.extend_from_slice(&[0x00, 12, 0, 0xff, 1, 2, 3, 4, 5, 6, 7, 8, 9, 10, 11]);
                out.push(v);
            }
        }
    }
    out
}
