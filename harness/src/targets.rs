//! Bodies of the libFuzzer targets. Each decodes the raw bytes into structured arguments and runs
//! the same oracle functions the vcheck properties use; a violation aborts the process so that
//! libFuzzer saves the input. `run_target` is also used by vcheck to replay saved inputs.

use crate::engine::{Ctx, Tier, Viol};
use std::sync::OnceLock;

static CTX: OnceLock<Ctx> = OnceLock::new();

fn ctx_for(id: &str) -> &'static Ctx {
    CTX.get_or_init(|| {
        crate::sim::install_panic_hook();
        crate::sim::thread_setup();
        Ctx::new(id, Tier::Thorough, 0, true)
    })
}

pub fn property_of(target: &str) -> &'static str {
    match target {
        "decode_codecs" => "C16",
        "beacon_text" => "C17",
        "dissect" => "C19",
        _ => "C08",
    }
}

/// Runs one input through the target's oracle; returns the violations.
pub fn run_target(ctx: &Ctx, target: &str, data: &[u8]) -> Vec<Viol> {
    match target {
        "decode_codecs" => {
            if data.is_empty() {
                return vec![];
            }
            let which = ["nodeinfo", "init", "rotation"][(data[0] % 3) as usize];
            let body = &data[1..];
            if which == "init" {
                let pk = [0x42u8; 32];
                let salt = [9u8, 9, 9, 9];
                let mut b = salt.to_vec();
                b.extend_from_slice(&crate::props::c16::key_selector(&pk, &salt));
                b.extend_from_slice(body);
                crate::props::c16::check_decode_bytes(ctx, which, &b, &[pk])
            } else {
                crate::props::c16::check_decode_bytes(ctx, which, body, &[])
            }
        }
        "beacon_text" => {
            if data.len() < 2 {
                return vec![];
            }
            let pws = crate::props::c17::passwords();
            let pw = &pws[data[0] as usize % pws.len()];
            let text = String::from_utf8_lossy(&data[1..]).to_string();
            crate::props::c17::check_text(ctx, pw, &text)
        }
        "dissect" => {
            if data.is_empty() {
                return vec![];
            }
            let proto = if data[0] & 1 == 0 { "frame" } else { "packet" };
            crate::props::c19::check_case(ctx, proto, &data[1..])
        }
        _ => {
            // node_datagrams: byte 0 = receiver state, then records: [source selector][len lo][len hi][bytes...]
            if data.len() < 2 {
                return vec![];
            }
            use crate::props::c08::{Case, Inj, Src};
            use crate::props::lab::ALL_STATES;
            let state = ALL_STATES[data[0] as usize % ALL_STATES.len()];
            let mut injections = vec![];
            let mut i = 1;
            while i + 3 <= data.len() && injections.len() < 24 {
                let sel = data[i];
                let len = (data[i + 1] as usize | ((data[i + 2] as usize) << 8)) % 2000;
                i += 3;
                let end = (i + len).min(data.len());
                let bytes = &data[i..end];
                i = end;
                let src = [Src::Natural, Src::Stranger, Src::PeerP, Src::OtherPeer][(sel & 3) as usize].clone();
                if sel & 0x80 != 0 && sel & 0x40 != 0 {
                    injections.push(Inj::Tick);
                } else if sel & 0x80 != 0 && bytes.len() >= 3 {
                    // derived from a genuine datagram: kind, truncation, one byte substitution
                    injections.push(Inj::Derived {
                        src,
                        kind: bytes[0] % 9,
                        len: if bytes[1] == 0 { 100_000 } else { 400 - (bytes[1] as usize) },
                        pos: if sel & 0x20 != 0 { usize::MAX } else { bytes[1] as usize + bytes.len() },
                        val: bytes[2],
                    });
                } else {
                    injections.push(Inj::Datagram(src, crate::engine::hex(bytes)));
                }
            }
            crate::props::c08::run_case(ctx, &Case { state, injections })
        }
    }
}

/// libFuzzer entry: abort on violation so that the input is saved as an artefact.
pub fn fuzz_entry(target: &str, data: &[u8]) {
    let ctx = ctx_for(property_of(target));
    let v = run_target(ctx, target, data);
    if let Some(x) = v.iter().find(|x| !ctx.is_known(&x.sig)) {
        eprintln!("VERIF-FUZZ-VIOLATION target={} sig={} :: {}", target, x.sig, x.desc);
        std::process::abort();
    }
}

/// small valid inputs for the seed corpus of a target (genuine encodings produced by the real code)
pub fn seed_inputs(target: &str) -> Vec<Vec<u8>> {
    let mut out: Vec<Vec<u8>> = vec![];
    match target {
        "decode_codecs" => {
            use crate::props::c16::*;
            let d = NiDesc {
                node_id: [7; 16],
                peers: vec![(Some([9; 16]), vec!["10.0.0.1:3210".into(), "[2001:db8::1]:3210".into()]), (None, vec![])],
                claims: vec![(vec![10, 0, 0, 0], 8), (vec![2, 0, 0, 0, 0, 1], 48)],
                peer_timeout: Some(300),
                addrs: vec!["192.168.1.1:3210".into()],
                unknown: vec![(2, 50, vec![1, 2, 3])],
            };
            for u in [false, true] {
                let mut v = vec![0u8];
                v.extend(ref_encode_nodeinfo(&d, u));
                out.push(v);
            }
            let kp = crate::sim::keypair_from_seed(9);
            for stage in 1..=3u8 {
                let id = InitDesc { stage, hash: [3; 20], ecdh: vec![5; 32], algos: vec![(0, 0), (1, 600f32.to_bits()), (3, 400f32.to_bits())], payload: vec![8; 40], seed: [0; 32], unknown: vec![(1, 9, vec![4, 4])] };
                let b = ref_encode_init(&id, &kp, [9, 9, 9, 9], true);
                let mut v = vec![1u8];
                v.extend_from_slice(&b[8..]);
                out.push(v);
            }
            let mut r = vec![2u8];
            r.extend_from_slice(&1u64.to_be_bytes());
            r.push(32);
            r.extend_from_slice(&[6; 32]);
            r.push(32);
            r.extend_from_slice(&[7; 32]);
            out.push(r);
        }
        "beacon_text" => {
            let pws = crate::props::c17::passwords();
            for (i, pw) in pws.iter().take(6).enumerate() {
                vpncloud::util::MockTimeSource::set_time(2000 * 3600);
                let ser = vpncloud::beacon::BeaconSerializer::<vpncloud::util::MockTimeSource>::new(pw.as_bytes());
                let b = ser.encode(&["1.2.3.4:5678".parse().unwrap(), "[2001:db8::1]:53".parse().unwrap()]);
                let mut v = vec![i as u8];
                v.extend_from_slice(format!("noise {} more-noise {}", b, &b[..9]).as_bytes());
                out.push(v);
            }
        }
        "dissect" => {
            let mut f = vec![0u8];
            f.extend(crate::sim::eth_frame([1; 6], [2; 6], Some(0x2067), b"x"));
            out.push(f);
            let mut p = vec![1u8];
            p.extend(crate::sim::ipv4_packet([10, 0, 0, 1], [10, 0, 0, 2], b"y"));
            out.push(p);
            let mut p6 = vec![1u8, 0x60];
            p6.extend_from_slice(&[0; 45]);
            out.push(p6);
        }
        _ => {
            // node_datagrams: one record per genuine kind, derived form
            for st in 0..7u8 {
                let mut v = vec![st];
                for kind in 0..9u8 {
                    v.extend_from_slice(&[0x80 | (kind & 3), 3, 0, kind, 10 * kind, 0xff]);
                    v.extend_from_slice(&[0xa0 | (kind & 3), 3, 0, kind, 0, 0]);
                }
                v.extend_from_slice(&[0xc0, 0, 0]);
                v.extend_from_slice(&[0x00, 12, 0, 0xff, 1, 2, 3, 4, 5, 6, 7, 8, 9, 10, 11]);
                out.push(v);
            }
        }
    }
    out
}
