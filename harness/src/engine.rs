//! Check engine: evidence accounting, violation / known-finding handling, deterministic
//! RNG streams, a 16-way work splitter and a proptest driver (shrinking, replay files).
//!
//! Everything a check counts goes through `Ctx`, so the numbers in the evidence file are
//! measured by the run that wrote them.

use proptest::strategy::{Strategy, ValueTree};
use proptest::test_runner::{Config, RngAlgorithm, TestCaseError, TestError, TestRng, TestRunner};
use serde_json::{json, Value};
use std::cell::RefCell;
use std::collections::{BTreeMap, HashSet};
use std::hash::{Hash, Hasher};
use std::sync::atomic::{AtomicBool, AtomicU64, AtomicUsize, Ordering};
use std::sync::Mutex;
use std::time::Instant;

pub const WORKERS: usize = 16;
/// root of the verification tree: /verif, or the snapshot a background run (`vp run`) works in
pub fn verif_dir() -> String {
    std::env::var("VERIF_HOME").unwrap_or_else(|_| "/verif".to_string())
}

#[derive(Clone, Copy, PartialEq, Eq, Debug)]
pub enum Tier {
    Quick,
    Thorough,
}

impl Tier {
    pub fn name(self) -> &'static str {
        match self {
            Tier::Quick => "quick",
            Tier::Thorough => "thorough",
        }
    }
    /// pick by tier
    pub fn pick<T>(self, quick: T, thorough: T) -> T {
        match self {
            Tier::Quick => quick,
            Tier::Thorough => thorough,
        }
    }
}

#[derive(Clone, Debug)]
pub struct Viol {
    /// signature of the *root cause class* (used for known-finding matching)
    pub sig: String,
    /// human description of what failed
    pub desc: String,
    /// the failing case, as a JSON value a `replay` function understands
    pub case: Value,
}

impl Viol {
    pub fn new(sig: impl Into<String>, desc: impl Into<String>, case: Value) -> Self {
        Viol { sig: sig.into(), desc: desc.into(), case }
    }
}

#[derive(Clone, Debug)]
pub struct Known {
    pub property: String,
    pub sig: String,
    pub what: String,
}

#[derive(Default)]
struct Local {
    evals: u64,
    classes: BTreeMap<String, u64>,
    nontrivial: Vec<u64>,
    shrinking: bool,
}

thread_local! {
    static LOCAL: RefCell<Local> = RefCell::new(Local::default());
}

struct Inner {
    classes: BTreeMap<String, u64>,
    samples: Vec<Value>,
    sample_labels: BTreeMap<String, usize>,
    subspaces: Vec<Value>,
    violations: Vec<Viol>,
    known_seen: BTreeMap<String, u64>,
    assumptions: Vec<String>,
    extra: BTreeMap<String, Value>,
}

pub struct Ctx {
    pub id: String,
    pub tier: Tier,
    pub seed: u64,
    pub replaying: bool,
    start: Instant,
    evals: AtomicU64,
    nontrivial: Vec<Mutex<HashSet<u64>>>,
    inner: Mutex<Inner>,
    known: Vec<Known>,
    rule: Mutex<String>,
    pub stop: AtomicBool,
}

pub fn hash_of<H: Hash>(h: &H) -> u64 {
    // SipHash with fixed keys: deterministic across runs
    #[allow(deprecated)]
    let mut s = std::hash::SipHasher::new_with_keys(0x7670_6e63_6c6f_7564, 0x7665_7269_6621_2121);
    h.hash(&mut s);
    s.finish()
}

pub fn load_known(property: &str) -> Vec<Known> {
    let path = format!("{}/known_findings.txt", verif_dir());
    let mut out = vec![];
    if let Ok(text) = std::fs::read_to_string(path) {
        for line in text.lines() {
            let line = line.trim();
            // known: property=C09 sig=<signature> :: what fails
            if let Some(rest) = line.strip_prefix("known:") {
                let rest = rest.trim();
                let (head, what) = match rest.find("::") {
                    Some(p) => (&rest[..p], rest[p + 2..].trim()),
                    None => (rest, ""),
                };
                let mut prop = "";
                let mut sig = "";
                for tok in head.split_whitespace() {
                    if let Some(v) = tok.strip_prefix("property=") {
                        prop = v;
                    } else if let Some(v) = tok.strip_prefix("sig=") {
                        sig = v;
                    }
                }
                if prop == property && !sig.is_empty() {
                    out.push(Known { property: prop.into(), sig: sig.into(), what: what.into() });
                }
            }
            // "fixed:" lines suppress nothing and are ignored here.
        }
    }
    out
}

impl Ctx {
    pub fn new(id: &str, tier: Tier, seed: u64, replaying: bool) -> Self {
        Ctx {
            id: id.to_string(),
            tier,
            seed,
            replaying,
            start: Instant::now(),
            evals: AtomicU64::new(0),
            nontrivial: (0..64).map(|_| Mutex::new(HashSet::new())).collect(),
            inner: Mutex::new(Inner {
                classes: BTreeMap::new(),
                samples: vec![],
                sample_labels: BTreeMap::new(),
                subspaces: vec![],
                violations: vec![],
                known_seen: BTreeMap::new(),
                assumptions: vec![],
                extra: BTreeMap::new(),
            }),
            known: load_known(id),
            rule: Mutex::new(String::new()),
            stop: AtomicBool::new(false),
        }
    }

    pub fn quick(&self) -> bool {
        self.tier == Tier::Quick
    }

    // ---------- accounting (thread-local, merged by flush) ----------

    fn counting() -> bool {
        LOCAL.with(|l| !l.borrow().shrinking)
    }

    /// one generated case was executed
    pub fn eval(&self) {
        LOCAL.with(|l| {
            let mut l = l.borrow_mut();
            if !l.shrinking {
                l.evals += 1
            }
        })
    }

    pub fn evals(&self, n: u64) {
        LOCAL.with(|l| {
            let mut l = l.borrow_mut();
            if !l.shrinking {
                l.evals += n
            }
        })
    }

    /// the case was non-trivial by the property's rule; `descriptor` identifies it for distinctness
    pub fn nontrivial<H: Hash>(&self, descriptor: &H) {
        if !Self::counting() {
            return;
        }
        let h = hash_of(descriptor);
        LOCAL.with(|l| {
            let mut l = l.borrow_mut();
            l.nontrivial.push(h);
            if l.nontrivial.len() >= 4096 {
                let v = std::mem::take(&mut l.nontrivial);
                drop(l);
                self.merge_nontrivial(v);
            }
        })
    }

    fn merge_nontrivial(&self, v: Vec<u64>) {
        let mut buckets: Vec<Vec<u64>> = (0..64).map(|_| vec![]).collect();
        for h in v {
            buckets[(h & 63) as usize].push(h);
        }
        for (i, b) in buckets.into_iter().enumerate() {
            if !b.is_empty() {
                let mut s = self.nontrivial[i].lock().unwrap();
                s.extend(b);
            }
        }
    }

    /// classification counter (distribution of what the generator produced)
    pub fn class(&self, name: &str) {
        if !Self::counting() {
            return;
        }
        LOCAL.with(|l| {
            let mut l = l.borrow_mut();
            if let Some(c) = l.classes.get_mut(name) {
                *c += 1;
            } else {
                l.classes.insert(name.to_string(), 1);
            }
        })
    }

    pub fn class_n(&self, name: &str, n: u64) {
        if !Self::counting() {
            return;
        }
        LOCAL.with(|l| *l.borrow_mut().classes.entry(name.to_string()).or_insert(0) += n)
    }

    pub fn flush_local(&self) {
        let local = LOCAL.with(|l| {
            let mut l = l.borrow_mut();
            let shrinking = l.shrinking;
            let mut t = std::mem::take(&mut *l);
            l.shrinking = shrinking;
            t.shrinking = false;
            t
        });
        self.evals.fetch_add(local.evals, Ordering::Relaxed);
        self.merge_nontrivial(local.nontrivial);
        if !local.classes.is_empty() {
            let mut inner = self.inner.lock().unwrap();
            for (k, v) in local.classes {
                *inner.classes.entry(k).or_insert(0) += v;
            }
        }
    }

    /// keep a written-out case for the evidence file (at most `per_label` per label)
    pub fn sample(&self, label: &str, v: impl FnOnce() -> Value) {
        if !Self::counting() {
            return;
        }
        let mut inner = self.inner.lock().unwrap();
        let total = inner.samples.len();
        let n = inner.sample_labels.entry(label.to_string()).or_insert(0);
        if *n < 3 && total < 60 {
            *n += 1;
            let val = v();
            inner.samples.push(json!({ "kind": label, "case": val }));
        }
    }

    /// cheap pre-test so that callers can avoid building sample values in hot loops
    pub fn wants_sample(&self, label: &str) -> bool {
        if !Self::counting() {
            return false;
        }
        let inner = self.inner.lock().unwrap();
        inner.sample_labels.get(label).copied().unwrap_or(0) < 3 && inner.samples.len() < 60
    }

    pub fn subspace(&self, name: &str, size: u64, exhaustive: bool) {
        self.inner.lock().unwrap().subspaces.push(json!({"name": name, "cases": size, "exhaustive": exhaustive}));
    }

    pub fn assume(&self, text: &str) {
        let mut inner = self.inner.lock().unwrap();
        if !inner.assumptions.iter().any(|a| a == text) {
            inner.assumptions.push(text.to_string());
        }
    }

    pub fn extra(&self, key: &str, v: Value) {
        self.inner.lock().unwrap().extra.insert(key.to_string(), v);
    }

    pub fn rule(&self, text: &str) {
        *self.rule.lock().unwrap() = text.to_string();
    }

    // ---------- violations ----------

    pub fn is_known(&self, sig: &str) -> bool {
        self.known.iter().any(|k| k.sig == sig)
    }

    /// Reports a violation. Returns true when it is a listed known finding (search goes on).
    pub fn violation(&self, v: Viol) -> bool {
        let known = self.is_known(&v.sig);
        let mut inner = self.inner.lock().unwrap();
        if known {
            *inner.known_seen.entry(v.sig.clone()).or_insert(0) += 1;
            return true;
        }
        if !inner.violations.iter().any(|x| x.sig == v.sig) && inner.violations.len() < 16 {
            inner.violations.push(v);
        }
        false
    }

    /// report all; true if any is new (unknown)
    pub fn report(&self, viols: Vec<Viol>) -> bool {
        let mut new = false;
        for v in viols {
            if !self.violation(v) {
                new = true;
            }
        }
        new
    }

    pub fn violation_count(&self) -> usize {
        self.inner.lock().unwrap().violations.len()
    }

    // ---------- randomness ----------

    /// deterministic RNG stream: function of (VERIF_SEED, property, stream name, worker)
    pub fn rng(&self, stream: &str, worker: usize) -> TestRng {
        let mut seed = [0u8; 32];
        let h1 = hash_of(&(self.seed, &self.id, stream, worker as u64, 1u8));
        let h2 = hash_of(&(self.seed, &self.id, stream, worker as u64, 2u8));
        let h3 = hash_of(&(self.seed, &self.id, stream, worker as u64, 3u8));
        let h4 = hash_of(&(self.seed, &self.id, stream, worker as u64, 4u8));
        seed[0..8].copy_from_slice(&h1.to_le_bytes());
        seed[8..16].copy_from_slice(&h2.to_le_bytes());
        seed[16..24].copy_from_slice(&h3.to_le_bytes());
        seed[24..32].copy_from_slice(&h4.to_le_bytes());
        TestRng::from_seed(RngAlgorithm::ChaCha, &seed)
    }

    // ---------- parallel helpers ----------

    /// Runs f(worker, index) for every index in 0..n, split dynamically over WORKERS threads.
    pub fn par_range<F: Fn(usize, u64) + Sync>(&self, n: u64, f: F) {
        self.par_range_chunked(n, 1, f)
    }

    pub fn par_range_chunked<F: Fn(usize, u64) + Sync>(&self, n: u64, chunk: u64, f: F) {
        let next = AtomicU64::new(0);
        let workers = if self.replaying { 1 } else { WORKERS.min(((n + chunk - 1) / chunk).max(1) as usize) };
        std::thread::scope(|s| {
            for w in 0..workers {
                let next = &next;
                let f = &f;
                s.spawn(move || {
                    crate::sim::thread_setup();
                    loop {
                        let start = next.fetch_add(chunk, Ordering::Relaxed);
                        if start >= n {
                            break;
                        }
                        for i in start..(start + chunk).min(n) {
                            f(w, i);
                        }
                    }
                    self.flush_local();
                });
            }
        });
    }

    /// Runs f(worker) on each of WORKERS threads.
    pub fn par_workers<F: Fn(usize) + Sync>(&self, workers: usize, f: F) {
        std::thread::scope(|s| {
            for w in 0..workers {
                let f = &f;
                s.spawn(move || {
                    crate::sim::thread_setup();
                    f(w);
                    self.flush_local();
                });
            }
        });
    }

    /// Runs f over a vector of items in parallel (dynamic split).
    pub fn par_items<T: Sync, F: Fn(usize, &T) + Sync>(&self, items: &[T], f: F) {
        let next = AtomicUsize::new(0);
        let workers = if self.replaying { 1 } else { WORKERS.min(items.len().max(1)) };
        std::thread::scope(|s| {
            for w in 0..workers {
                let next = &next;
                let f = &f;
                s.spawn(move || {
                    crate::sim::thread_setup();
                    loop {
                        let i = next.fetch_add(1, Ordering::Relaxed);
                        if i >= items.len() {
                            break;
                        }
                        f(w, &items[i]);
                    }
                    self.flush_local();
                });
            }
        });
    }

    // ---------- proptest driver ----------

    /// Generates `cases` values from the strategy (split over the workers, each worker its own
    /// seeded TestRunner), runs `test` on each, shrinks the first unknown failure of each worker
    /// and records the minimal case. `test` returns the violations of the case (empty = held);
    /// violations matching a known finding are counted and do not stop the search.
    pub fn proptest<S, MK, F>(&self, stream: &str, cases: u32, mk: MK, test: F)
    where
        S: Strategy,
        S::Value: Clone + std::fmt::Debug,
        MK: Fn() -> S + Sync,
        F: Fn(&S::Value) -> Vec<Viol> + Sync,
    {
        let workers = WORKERS.min(cases.max(1) as usize);
        let per = (cases as usize + workers - 1) / workers;
        self.par_workers(workers, |w| {
            let strat = mk();
            let config = Config {
                cases: per as u32,
                failure_persistence: None,
                max_shrink_iters: 600,
                max_shrink_time: 30_000,
                max_local_rejects: 1 << 20,
                max_global_rejects: 1 << 20,
                ..Config::default()
            };
            let mut runner = TestRunner::new_with_rng(config, self.rng(stream, w));
            let first_seen: RefCell<Option<Viol>> = RefCell::new(None);
            let result = runner.run(&strat, |v| {
                if self.stop.load(Ordering::Relaxed) {
                    return Ok(());
                }
                let viols = test(&v);
                let mut unknown = vec![];
                for x in viols {
                    if self.is_known(&x.sig) {
                        if Self::counting() {
                            self.violation(x);
                        }
                    } else {
                        unknown.push(x);
                    }
                }
                if unknown.is_empty() {
                    Ok(())
                } else {
                    LOCAL.with(|l| l.borrow_mut().shrinking = true);
                    if first_seen.borrow().is_none() {
                        *first_seen.borrow_mut() = Some(unknown[0].clone());
                    }
                    Err(TestCaseError::fail(unknown[0].sig.clone()))
                }
            });
            LOCAL.with(|l| l.borrow_mut().shrinking = true);
            if let Err(TestError::Fail(_, minimal)) = result {
                // re-run the minimal case to obtain its violation records
                let viols = test(&minimal);
                let mut any = false;
                for x in viols {
                    if !self.is_known(&x.sig) {
                        self.violation(x);
                        any = true;
                    }
                }
                if !any {
                    // flaky under re-execution (should not happen: cases are deterministic up to
                    // the documented SystemRandom material) - report what proptest saw
                    // the minimal case did not fail again: the failure depends on material drawn from SystemRandom
                    // (e.g. which end has the larger salted hash). Report the failure that was actually seen.
                    let seen = first_seen.borrow().clone();
                    match seen {
                        Some(mut v) => {
                            v.desc = format!("{} [seen during generation; the shrunk case {:?} did not fail on re-execution - the outcome depends on random handshake material, replay repeats it]", v.desc, minimal);
                            self.violation(v);
                        }
                        None => {
                            self.violation(Viol::new(
                                "unstable-failure",
                                format!("case failed during generation but not on re-execution: {:?}", minimal),
                                json!({"debug": format!("{:?}", minimal)}),
                            ));
                        }
                    }
                }
                self.stop.store(true, Ordering::Relaxed);
            }
            LOCAL.with(|l| l.borrow_mut().shrinking = false);
        });
        self.stop.store(false, Ordering::Relaxed);
    }

    /// Draw one value from a strategy with a given rng-backed runner (for plain sampling).
    pub fn draw<S: Strategy>(runner: &mut TestRunner, s: &S) -> S::Value {
        s.new_tree(runner).expect("strategy").current()
    }

    pub fn sampler(&self, stream: &str, worker: usize) -> TestRunner {
        TestRunner::new_with_rng(
            Config { failure_persistence: None, ..Config::default() },
            self.rng(stream, worker),
        )
    }

    // ---------- finish ----------

    /// Writes the evidence file, prints KNOWN-FINDING / VIOLATION lines, returns the exit code.
    pub fn finish(&self, level: &str) -> i32 {
        self.flush_local();
        let wall = self.start.elapsed().as_secs_f64();
        let distinct: usize = self.nontrivial.iter().map(|s| s.lock().unwrap().len()).sum();
        let inner = {
            let mut g = self.inner.lock().unwrap();
            Inner {
                classes: std::mem::take(&mut g.classes),
                samples: std::mem::take(&mut g.samples),
                sample_labels: BTreeMap::new(),
                subspaces: std::mem::take(&mut g.subspaces),
                violations: std::mem::take(&mut g.violations),
                known_seen: std::mem::take(&mut g.known_seen),
                assumptions: std::mem::take(&mut g.assumptions),
                extra: std::mem::take(&mut g.extra),
            }
        };
        let evals = self.evals.load(Ordering::Relaxed);

        // known findings
        for (sig, n) in &inner.known_seen {
            let what = self.known.iter().find(|k| &k.sig == sig).map(|k| k.what.clone()).unwrap_or_default();
            println!("KNOWN-FINDING: property={} sig={} ({} cases) {}", self.id, sig, n, what);
        }

        // violations -> replay files
        let mut viol_out = vec![];
        if !inner.violations.is_empty() {
            std::fs::create_dir_all(format!("{}/replays", verif_dir())).ok();
        }
        for v in &inner.violations {
            let body = json!({
                "property": self.id,
                "signature": v.sig,
                "description": v.desc,
                "case": v.case,
            });
            let text = serde_json::to_string_pretty(&body).unwrap();
            let path = if self.replaying {
                std::env::var("VCHECK_REPLAY_PATH").unwrap_or_else(|_| "-".into())
            } else {
                let p = format!("{}/replays/{}-{:016x}.json", verif_dir(), self.id, hash_of(&(&v.sig, &text)));
                std::fs::write(&p, &text).ok();
                p
            };
            println!("VIOLATION property={} replay={}", self.id, path);
            println!("  signature: {}", v.sig);
            println!("  what: {}", v.desc);
            viol_out.push(json!({"signature": v.sig, "description": v.desc, "replay": path}));
        }

        if !self.replaying {
            let all_exh = !inner.subspaces.is_empty()
                && inner.subspaces.iter().all(|s| s["exhaustive"].as_bool().unwrap_or(false));
            let mut coverage = serde_json::Map::new();
            coverage.insert("evaluations".into(), json!(evals));
            coverage.insert("distinct_nontrivial".into(), json!(distinct));
            coverage.insert("rule".into(), json!(*self.rule.lock().unwrap()));
            coverage.insert("samples".into(), Value::Array(inner.samples));
            coverage.insert("exhaustive".into(), json!(all_exh));
            coverage.insert("subspaces".into(), Value::Array(inner.subspaces));
            coverage.insert("classes".into(), json!(inner.classes));
            coverage.insert(
                "known_findings_seen".into(),
                json!(inner.known_seen.iter().map(|(k, v)| json!({"sig": k, "cases": v})).collect::<Vec<_>>()),
            );
            coverage.insert("violations_detail".into(), Value::Array(viol_out));
            for (k, v) in inner.extra {
                coverage.insert(k, v);
            }
            let ev = json!({
                "property_id": self.id,
                "tier": self.tier.name(),
                "seed": self.seed,
                "level": level,
                "coverage": Value::Object(coverage),
                "assumptions": inner.assumptions,
                "wall_s": (wall * 1000.0).round() / 1000.0,
                "violations": inner.violations.len(),
            });
            std::fs::create_dir_all(format!("{}/evidence", verif_dir())).ok();
            let path = format!("{}/evidence/{}.json", verif_dir(), self.id);
            std::fs::write(&path, serde_json::to_string_pretty(&ev).unwrap()).expect("write evidence");
        }
        println!(
            "{} {} seed={} evaluations={} distinct_nontrivial={} violations={} known={} wall={:.1}s",
            self.id,
            self.tier.name(),
            self.seed,
            evals,
            distinct,
            inner.violations.len(),
            inner.known_seen.len(),
            wall
        );
        if inner.violations.is_empty() {
            0
        } else {
            1
        }
    }
}

// ---------- hang guard ----------
//
// "Never a hang" is part of some properties (C16 decoders, C08 node events). A worker that enters a guarded call
// publishes the input it is working on; a watchdog thread reports a violation when one guarded call has consumed
// more than HANG_CPU_SECONDS of *CPU time of that thread* (read from /proc, so machine load does not matter) and
// ends the process with the usual VIOLATION line and replay file - the stuck thread cannot be stopped otherwise.

pub const HANG_CPU_SECONDS: f64 = 10.0;
pub type MkCase = fn(kind: &str, bytes: &[u8], aux: &[u8]) -> Value;

struct HangData {
    kind: &'static str,
    bytes: Vec<u8>,
    aux: Vec<u8>,
    mk: Option<MkCase>,
}

pub struct HangSlot {
    tid: u32,
    epoch: AtomicU64,
    inside: AtomicBool,
    alive: AtomicBool,
    data: Mutex<HangData>,
}

static HANG_SLOTS: Mutex<Vec<std::sync::Arc<HangSlot>>> = Mutex::new(Vec::new());

struct SlotHandle(std::sync::Arc<HangSlot>);
impl Drop for SlotHandle {
    fn drop(&mut self) {
        self.0.alive.store(false, Ordering::SeqCst);
    }
}

thread_local! {
    static MY_SLOT: SlotHandle = {
        let tid = std::fs::read_link("/proc/thread-self").ok().and_then(|p| p.file_name().and_then(|f| f.to_str().and_then(|s| s.parse::<u32>().ok()))).unwrap_or(0);
        let slot = std::sync::Arc::new(HangSlot {
            tid,
            epoch: AtomicU64::new(0),
            inside: AtomicBool::new(false),
            alive: AtomicBool::new(true),
            data: Mutex::new(HangData { kind: "", bytes: vec![], aux: vec![], mk: None }),
        });
        let mut all = HANG_SLOTS.lock().unwrap();
        all.retain(|s| s.alive.load(Ordering::SeqCst));
        all.push(slot.clone());
        SlotHandle(slot)
    };
}

fn json_case(_kind: &str, bytes: &[u8], _aux: &[u8]) -> Value {
    serde_json::from_slice(bytes).unwrap_or(Value::Null)
}

/// Runs `f` as one guarded call working on `bytes` (+ `aux`); `mk` turns them into the replay case if it hangs.
pub fn hang_guard<T>(kind: &'static str, bytes: &[u8], aux: &[u8], mk: MkCase, f: impl FnOnce() -> T) -> T {
    MY_SLOT.with(|h| {
        let slot = &h.0;
        {
            let mut d = slot.data.lock().unwrap();
            d.kind = kind;
            d.bytes.clear();
            d.bytes.extend_from_slice(bytes);
            d.aux.clear();
            d.aux.extend_from_slice(aux);
            d.mk = Some(mk);
        }
        slot.epoch.fetch_add(1, Ordering::SeqCst);
        slot.inside.store(true, Ordering::SeqCst);
        let r = f();
        slot.inside.store(false, Ordering::SeqCst);
        r
    })
}

/// Same, for cases that are described by a JSON value (node-level cases that cost milliseconds anyway).
pub fn hang_guard_json<T>(kind: &'static str, case: &Value, f: impl FnOnce() -> T) -> T {
    let text = serde_json::to_vec(case).unwrap_or_default();
    hang_guard(kind, &text, &[], json_case, f)
}

fn thread_cpu_seconds(tid: u32) -> Option<f64> {
    let text = std::fs::read_to_string(format!("/proc/self/task/{}/stat", tid)).ok()?;
    let rest = &text[text.rfind(')')? + 1..];
    let f: Vec<&str> = rest.split_whitespace().collect();
    let utime: f64 = f.get(11)?.parse().ok()?;
    let stime: f64 = f.get(12)?.parse().ok()?;
    Some((utime + stime) / 100.0)
}

impl Ctx {
    /// Body of the watchdog thread (started by main inside a thread scope); returns when `done` is set.
    pub fn watchdog(&self, done: &AtomicBool, level: &str) {
        let mut seen: BTreeMap<u32, (u64, f64)> = BTreeMap::new();
        while !done.load(Ordering::SeqCst) {
            std::thread::sleep(std::time::Duration::from_millis(250));
            let slots: Vec<std::sync::Arc<HangSlot>> = HANG_SLOTS.lock().unwrap().iter().cloned().collect();
            for s in slots {
                if !s.alive.load(Ordering::SeqCst) || !s.inside.load(Ordering::SeqCst) || s.tid == 0 {
                    seen.remove(&s.tid);
                    continue;
                }
                let e = s.epoch.load(Ordering::SeqCst);
                let cpu = match thread_cpu_seconds(s.tid) {
                    Some(c) => c,
                    None => continue,
                };
                match seen.get(&s.tid) {
                    Some((e0, c0)) if *e0 == e => {
                        if cpu - c0 >= HANG_CPU_SECONDS && s.inside.load(Ordering::SeqCst) && s.epoch.load(Ordering::SeqCst) == e {
                            let (kind, case) = {
                                let d = s.data.lock().unwrap();
                                (d.kind, d.mk.map(|mk| mk(d.kind, &d.bytes, &d.aux)).unwrap_or(Value::Null))
                            };
                            let v = Viol::new(
                                format!("{}-hang", kind),
                                format!("one {} call has been running for more than {} CPU-seconds without returning (it normally takes micro- to milliseconds): hang", kind, HANG_CPU_SECONDS),
                                case,
                            );
                            self.violation(v);
                            let code = self.finish(level);
                            std::process::exit(if code == 0 { 2 } else { code });
                        }
                    }
                    _ => {
                        seen.insert(s.tid, (e, cpu));
                    }
                }
            }
        }
    }
}

/// Monotone index mapping for shrink-friendly choices: maps a u16 to 0..len.
pub fn pick_idx(x: u16, len: usize) -> usize {
    if len == 0 {
        0
    } else {
        ((x as usize) * len) >> 16
    }
}

pub fn hex(b: &[u8]) -> String {
    let mut s = String::with_capacity(b.len() * 2);
    for x in b {
        s.push_str(&format!("{:02x}", x));
    }
    s
}

pub fn unhex(s: &str) -> Vec<u8> {
    (0..s.len() / 2).map(|i| u8::from_str_radix(&s[2 * i..2 * i + 2], 16).unwrap_or(0)).collect()
}
