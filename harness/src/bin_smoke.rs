use vverif::sim::*;
fn main() {
    install_panic_hook();
    thread_setup();
    for _ in 0..8 {
        let sim = vverif::props::c09::build_mesh(3, 1);
        let kinds: Vec<String> = sim.wire_log.iter().map(|d| format!("{}>{}:{}", sim.index[&d.src], sim.index[&d.dst], if d.data.first() == Some(&0xff) { format!("hs{}", d.data[12]) } else { format!("s{}", d.data.len()) })).collect();
        println!("{} {:?}", sim.wire_log.len(), &kinds[..kinds.len().min(40)]);
    }
}
