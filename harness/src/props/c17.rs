//! C17 - beacons round-trip, are found inside arbitrary text, respect age and password.
//! Oracles: round trip decode(embed(encode(L))) == L; metamorphic age / password relations;
//! panic capture on generated texts.

use crate::engine::{pick_idx, Ctx, Viol};
use crate::sim::catch;
use proptest::prelude::*;
use serde::{Deserialize, Serialize};
use serde_json::{json, Value};
use std::net::{Ipv4Addr, Ipv6Addr, SocketAddr, SocketAddrV4, SocketAddrV6};
use vpncloud::beacon::BeaconSerializer;
use vpncloud::util::MockTimeSource;

type Ser = BeaconSerializer<MockTimeSource>;

#[derive(Clone, Debug, Serialize, Deserialize)]
pub enum Piece {
    /// random alphanumeric filler
    Alnum(String),
    /// non-alphanumeric separators (ASCII punctuation, whitespace, non-ASCII letters)
    Sep(String),
    /// the beacon of list number i (index into `lists`)
    Beacon(usize),
    /// first k characters of the begin marker
    PartialBegin(usize),
    /// first k characters of the end marker
    PartialEnd(usize),
    /// begin marker followed by the end marker without its first k characters (overlap attempt)
    Overlap(usize),
    /// begin marker + random body + end marker
    Garbage(String),
}

#[derive(Clone, Debug, Serialize, Deserialize)]
pub struct Case {
    pub password: String,
    pub other_password: Option<String>,
    pub lists: Vec<Vec<String>>,
    pub pieces: Vec<Piece>,
    /// separators are inserted into each beacon after every `sep_every` characters (0 = none)
    pub sep_every: usize,
    pub encode_hour: i64,
    pub decode_hour: i64,
    pub ttl: Option<u16>,
}

fn parse_list(l: &[String]) -> Vec<SocketAddr> {
    l.iter().filter_map(|s| s.parse().ok()).collect()
}

/// what decode must return for an encoded list: IPv4 entries first, then IPv6, order kept
fn normalise(l: &[SocketAddr]) -> Vec<SocketAddr> {
    let mut out: Vec<SocketAddr> = l.iter().filter(|a| a.is_ipv4()).copied().collect();
    for a in l {
        if let SocketAddr::V6(v6) = a {
            out.push(SocketAddr::V6(SocketAddrV6::new(*v6.ip(), v6.port(), 0, 0)));
        }
    }
    out
}

fn count_occurrences(hay: &str, needle: &str) -> usize {
    if needle.is_empty() {
        return 0;
    }
    let mut n = 0;
    let mut pos = 0;
    while let Some(f) = hay[pos..].find(needle) {
        n += 1;
        pos += f + 1;
    }
    n
}

fn contains_run(hay: &[SocketAddr], needle: &[SocketAddr]) -> bool {
    if needle.is_empty() {
        return true;
    }
    hay.windows(needle.len()).any(|w| w == needle)
}

fn age_ok(now_h: i64, then_h: i64, ttl: u16) -> bool {
    let now = (now_h & 0xffff) as u16;
    let then = (then_h & 0xffff) as u16;
    let d1 = now.wrapping_sub(then);
    let d2 = then.wrapping_sub(now);
    d1.min(d2) <= ttl
}

pub fn check_case(ctx: &Ctx, c: &Case) -> Vec<Viol> {
    ctx.eval();
    let cj = || serde_json::to_value(c).unwrap();
    let mut out = vec![];
    let ser = Ser::new(c.password.as_bytes());
    MockTimeSource::set_time(c.encode_hour * 3600 + 17);
    let lists: Vec<Vec<SocketAddr>> = c.lists.iter().map(|l| parse_list(l)).collect();
    // markers, obtained from the encoder's own output
    let empty = match catch(|| ser.encode(&[])) {
        Ok(e) => e,
        Err(p) => {
            out.push(Viol::new(format!("encode-{}", p.sig()), format!("encode panicked: {}", p.msg), cj()));
            return out;
        }
    };
    if empty.len() < 10 {
        out.push(Viol::new("encode-short", format!("encoded empty list is only {:?}", empty), cj()));
        return out;
    }
    let begin = empty[..5].to_string();
    let end = empty[empty.len() - 5..].to_string();
    let mut beacons = vec![];
    for l in &lists {
        match catch(|| ser.encode(l)) {
            Ok(b) => beacons.push(b),
            Err(p) => {
                out.push(Viol::new(format!("encode-{}", p.sig()), format!("encode panicked: {}", p.msg), cj()));
                return out;
            }
        }
    }
    // build the host text
    let mut text = String::new();
    let mut expected: Vec<SocketAddr> = vec![];
    let mut used: Vec<usize> = vec![];
    let mut stray = false;
    for p in &c.pieces {
        match p {
            Piece::Alnum(s) | Piece::Sep(s) => text.push_str(s),
            Piece::Beacon(i) => {
                if let Some(b) = beacons.get(*i) {
                    if c.sep_every > 0 {
                        for (k, ch) in b.chars().enumerate() {
                            if k > 0 && k % c.sep_every == 0 {
                                text.push_str(["-", "\n", " ", "\u{e9}", "/", "="][k % 6]);
                            }
                            text.push(ch);
                        }
                    } else {
                        text.push_str(b);
                    }
                    expected.extend(normalise(&lists[*i]));
                    used.push(*i);
                }
            }
            Piece::PartialBegin(k) => text.push_str(&begin[..(*k).min(4)]),
            Piece::PartialEnd(k) => text.push_str(&end[..(*k).min(4)]),
            Piece::Overlap(k) => {
                text.push_str(&begin);
                text.push_str(&end[(*k).min(5)..]);
                stray = true;
            }
            Piece::Garbage(body) => {
                text.push_str(&begin);
                text.push_str(body);
                text.push_str(&end);
                stray = true;
            }
        }
    }
    let sanitized: String = text.chars().filter(|ch| ch.is_ascii_alphanumeric()).collect();
    // beacon bodies containing a marker by accident: nothing can be demanded
    let body_marker = used.iter().any(|i| {
        let b = &beacons[*i];
        let body = &b[5..b.len() - 5];
        // the search for the end marker starts at the begin marker, so look at begin+body too
        count_occurrences(&b[..b.len() - 5], &end) > 0 || count_occurrences(body, &begin) > 0
    });
    let n_begin = count_occurrences(&sanitized, &begin);
    let n_end = count_occurrences(&sanitized, &end);
    let clean = !stray && n_begin == used.len() && n_end == used.len() && begin != end;

    MockTimeSource::set_time(c.decode_hour * 3600 + 3599);
    let got = match catch(|| ser.decode(&text, c.ttl)) {
        Ok(g) => g,
        Err(p) => {
            let kind = if stray { "overlapping-or-garbage-markers" } else { "text" };
            out.push(Viol::new(
                format!("decode-{}-{}", kind, p.sig()),
                format!("beacon extraction panicked ({} at {}) on text {:?}", p.msg, p.loc, text),
                cj(),
            ));
            return out;
        }
    };
    if body_marker || begin == end {
        ctx.class("skipped:accidental-marker-in-body");
        return out;
    }
    let in_age = match c.ttl {
        None => true,
        Some(t) => age_ok(c.decode_hour, c.encode_hour, t),
    };
    let nonempty = used.iter().any(|i| !lists[*i].is_empty());
    if in_age {
        if clean {
            ctx.class("oracle:exact");
            if got != expected {
                // classify: leading zero byte lost by the text codec?
                out.push(Viol::new(
                    "roundtrip-mismatch",
                    format!(
                        "decode(embed(encode(L))) != L: expected {:?}, got {:?} (password {:?}, hour {})",
                        expected, got, c.password, c.encode_hour
                    ),
                    cj(),
                ));
            }
        } else {
            ctx.class("oracle:contains-in-order");
            let mut ok = true;
            for i in &used {
                if !contains_run(&got, &normalise(&lists[*i])) {
                    ok = false;
                }
            }
            if !ok {
                out.push(Viol::new(
                    "roundtrip-mismatch",
                    format!("a beacon embedded next to stray markers was not recovered: expected to contain {:?}, got {:?}", expected, got),
                    cj(),
                ));
            }
        }
        if nonempty {
            ctx.nontrivial(&(&c.password, &c.lists, &text, c.encode_hour, c.ttl, c.decode_hour));
        }
    } else {
        ctx.class("oracle:out-of-age");
        if clean && !got.is_empty() {
            out.push(Viol::new(
                "age-limit-ignored",
                format!(
                    "beacon made at hour {} accepted at hour {} with limit {:?}: {:?}",
                    c.encode_hour, c.decode_hour, c.ttl, got
                ),
                cj(),
            ));
        }
        if nonempty {
            ctx.nontrivial(&(&c.password, &c.lists, &text, c.encode_hour, c.ttl, c.decode_hour));
        }
    }
    // other password: must not recover the list
    if let Some(op) = &c.other_password {
        if op != &c.password && nonempty && clean {
            let other = Ser::new(op.as_bytes());
            match catch(|| other.decode(&text, None)) {
                Ok(g2) => {
                    ctx.class("oracle:other-password");
                    if g2 == expected {
                        out.push(Viol::new(
                            "other-password-recovers",
                            format!("beacon made with {:?} recovered with {:?}", c.password, op),
                            cj(),
                        ));
                    }
                }
                Err(p) => out.push(Viol::new(
                    format!("decode-text-{}", p.sig()),
                    format!("beacon extraction panicked with other password: {}", p.msg),
                    cj(),
                )),
            }
        }
    }
    out
}

/// arbitrary text: extraction must not panic (used by proptest and by the libFuzzer target)
pub fn check_text(ctx: &Ctx, password: &str, text: &str) -> Vec<Viol> {
    ctx.eval();
    let ser = Ser::new(password.as_bytes());
    MockTimeSource::set_time(2000 * 3600);
    match catch(|| ser.decode(text, Some(50))) {
        Ok(_) => vec![],
        Err(p) => vec![Viol::new(
            format!("decode-text-{}", p.sig()),
            format!("beacon extraction panicked on arbitrary text: {} at {}", p.msg, p.loc),
            json!({"password": password, "text": text}),
        )],
    }
}

// ---------- generators ----------

fn v4(rng: &mut impl RngCore) -> String {
    let x = rng.next_u32();
    let port = (rng.next_u32() & 0xffff) as u16;
    SocketAddr::V4(SocketAddrV4::new(Ipv4Addr::from(if x % 7 == 0 { x & 0xff } else { x }), port)).to_string()
}

fn v6(rng: &mut impl RngCore) -> String {
    let mut b = [0u8; 16];
    rng.fill_bytes(&mut b);
    match rng.next_u32() % 12 {
        0 | 1 => {
            b[0] = 0;
            b[1] = 0;
        }
        // IPv6 addresses with an IPv4 inside or with special meaning stay IPv6 entries of the list
        2 | 3 => {
            // IPv4-mapped ::ffff:a.b.c.d
            b[..10].fill(0);
            b[10] = 0xff;
            b[11] = 0xff;
        }
        4 => b[..12].fill(0),  // IPv4-compatible ::a.b.c.d
        5 => {
            b.fill(0);
            b[15] = (rng.next_u32() & 1) as u8; // :: and ::1
        }
        6 => {
            // 64:ff9b::a.b.c.d (NAT64)
            b[..12].copy_from_slice(&[0, 0x64, 0xff, 0x9b, 0, 0, 0, 0, 0, 0, 0, 0]);
        }
        7 => b.fill(0xff),
        _ => {}
    }
    let port = match rng.next_u32() % 8 {
        0 => 0,
        1 => 65535,
        _ => (rng.next_u32() & 0xffff) as u16,
    };
    SocketAddr::V6(SocketAddrV6::new(Ipv6Addr::from(b), port, 0, 0)).to_string()
}

fn gen_list(rng: &mut impl RngCore, n4: usize, n6: usize) -> Vec<String> {
    let mut l = vec![];
    let mut a = n4;
    let mut b = n6;
    // interleave families: the codec must regroup them
    while a + b > 0 {
        if b == 0 || (a > 0 && rng.next_u32() % 2 == 0) {
            l.push(v4(rng));
            a -= 1;
        } else {
            l.push(v6(rng));
            b -= 1;
        }
    }
    l
}

pub fn passwords() -> Vec<String> {
    let mut v = vec![String::new(), "test123".into(), "mysecretkey".into(), "p\u{e4}ssw\u{f6}rt \u{1F600}".into()];
    for i in 0..196 {
        v.push(format!("pw-{}-{}", i, i * 7919 % 1000));
    }
    v
}

fn piece_strategy(nlists: usize) -> impl Strategy<Value = Piece> {
    prop_oneof![
        3 => "[A-Za-z0-9]{0,12}".prop_map(Piece::Alnum),
        3 => "[ \\-_/=+.,;:!?\\n\\t\u{e9}\u{4e2d}]{0,4}".prop_map(Piece::Sep),
        4 => (0..nlists.max(1)).prop_map(Piece::Beacon),
        1 => (1usize..5).prop_map(Piece::PartialBegin),
        1 => (1usize..5).prop_map(Piece::PartialEnd),
    ]
}

fn stray_piece_strategy(nlists: usize) -> impl Strategy<Value = Piece> {
    prop_oneof![
        3 => "[A-Za-z0-9]{0,12}".prop_map(Piece::Alnum),
        2 => "[ \\-_/=+.,;:!?\\n\\t]{0,4}".prop_map(Piece::Sep),
        3 => (0..nlists.max(1)).prop_map(Piece::Beacon),
        2 => (0usize..6).prop_map(Piece::Overlap),
        2 => "[A-Za-z0-9]{0,40}".prop_map(Piece::Garbage),
    ]
}

fn case_strategy(stray: bool) -> impl Strategy<Value = Case> {
    let pw = passwords();
    let pw2 = pw.clone();
    (
        any::<u16>(),
        proptest::option::of(any::<u16>()),
        proptest::collection::vec((0usize..=8, 0usize..=4, any::<u64>()), 1..4),
        any::<u16>(),
        prop_oneof![Just(0i64), Just(2000i64), 0i64..65536, 65000i64..200000],
        prop_oneof![
            3 => Just(None),
            2 => any::<u16>().prop_map(Some),
            2 => prop_oneof![Just(0u16), Just(1), Just(50), Just(32767), Just(32768), Just(65535)].prop_map(Some)
        ],
        prop_oneof![Just(0i64), Just(1), Just(-1), Just(2), -70000i64..70000],
        0usize..4,
    )
        .prop_flat_map(move |(pi, opi, specs, _x, enc_hour, ttl, delta_extra, sep_mode)| {
            let password = pw[pick_idx(pi, pw.len())].clone();
            let other = opi.map(|o| pw2[pick_idx(o, pw2.len())].clone());
            let lists: Vec<Vec<String>> = specs
                .iter()
                .map(|(a, b, seed)| {
                    let mut rng = proptest::test_runner::TestRng::from_seed(
                        proptest::test_runner::RngAlgorithm::ChaCha,
                        &{
                            let mut s = [0u8; 32];
                            s[..8].copy_from_slice(&seed.to_le_bytes());
                            s
                        },
                    );
                    gen_list(&mut rng, *a, *b)
                })
                .collect();
            let n = lists.len();
            // decode hour relative to the age limit: exactly at, one below, one above the limit, both directions
            let decode_hour = match ttl {
                Some(t) => enc_hour + (t as i64) * if delta_extra < 0 { -1 } else { 1 } + delta_extra.clamp(-2, 2),
                None => enc_hour + delta_extra,
            }
            .max(0);
            let pieces = if stray {
                proptest::collection::vec(stray_piece_strategy(n), 1..8).boxed()
            } else {
                proptest::collection::vec(piece_strategy(n), 1..8).boxed()
            };
            (Just(password), Just(other), Just(lists), pieces, Just(enc_hour), Just(decode_hour), Just(ttl), Just(sep_mode))
        })
        .prop_map(|(password, other_password, lists, pieces, encode_hour, decode_hour, ttl, sep_mode)| Case {
            password,
            other_password,
            lists,
            pieces,
            sep_every: [0, 1, 3, 7][sep_mode],
            encode_hour,
            decode_hour,
            ttl,
        })
}

// ---------------- one long-lived serializer (as inside a running node): histories of encodes ----------------

#[derive(Clone, Debug, Serialize, Deserialize)]
pub struct History {
    pub password: String,
    pub lists: Vec<Vec<String>>,
    /// (hours that pass before the step, index of the list that is encoded)
    pub steps: Vec<(u32, u8)>,
    pub start_hour: u32,
}

/// A node keeps ONE serializer for its whole life and encodes its (mostly unchanged) address list every beacon
/// interval. Every beacon it produces must carry the time of ITS production: a reader with age limit t accepts it
/// at production time +- t and rejects it at +- (t + 1), whatever was encoded before.
pub fn check_history(ctx: &Ctx, c: &History) -> Vec<Viol> {
    ctx.eval();
    let cj = || json!({"kind": "history", "case": c});
    let mut out = vec![];
    let ser = Ser::new(c.password.as_bytes());
    let lists: Vec<Vec<SocketAddr>> = c.lists.iter().map(|l| parse_list(l)).collect();
    if lists.is_empty() {
        return out;
    }
    let mut hour = c.start_hour as i64;
    let mut repeated = false;
    let mut last: Option<usize> = None;
    for (k, (dh, li)) in c.steps.iter().enumerate() {
        hour += *dh as i64;
        let li = *li as usize % lists.len();
        MockTimeSource::set_time(hour * 3600 + 5);
        let r = catch(|| ser.encode(&lists[li]));
        let beacon = match r {
            Ok(b) => b,
            Err(p) => {
                out.push(Viol::new(format!("encode-{}", p.sig()), format!("step {}: encode panicked: {}", k, p.msg), cj()));
                return out;
            }
        };
        // a beacon whose body happens to contain one of the 5-character markers (p ~ 1e-7) is cut at the wrong place
        // by design of the format: classified and skipped, as in the embedding cases
        if beacon.len() >= 10 {
            let (b, e) = (&beacon[..5], &beacon[beacon.len() - 5..]);
            let inner = &beacon[1..beacon.len() - 1];
            if count_occurrences(inner, b) + count_occurrences(inner, e) > 0 {
                ctx.class("history:accidental-marker-in-body(skipped)");
                continue;
            }
        }
        if last == Some(li) && *dh > 0 {
            repeated = true;
        }
        last = Some(li);
        let expect = normalise(&lists[li]);
        let fresh = Ser::new(c.password.as_bytes());
        for (who, reader) in [("the same serializer", &ser), ("a fresh reader", &fresh)] {
            for (off, ttl, want) in [(0i64, 0u16, true), (50, 50, true), (-50, 50, true), (51, 50, false), (-51, 50, false), (1, 0, false)] {
                MockTimeSource::set_time((hour + off) * 3600 + 11);
                let got = match catch(|| reader.decode(&beacon, Some(ttl))) {
                    Ok(g) => g,
                    Err(p) => {
                        out.push(Viol::new(format!("decode-{}", p.sig()), format!("step {}: decode panicked: {}", k, p.msg), cj()));
                        return out;
                    }
                };
                let ok = if want { got == expect } else { got.is_empty() };
                if !ok && !(expect.is_empty()) {
                    out.push(Viol::new(
                        if want { "beacon-of-long-lived-serializer-not-recovered" } else { "beacon-of-long-lived-serializer-accepted-out-of-age" },
                        format!(
                            "step {} (hour {}, list {}): beacon read by {} {} h {} production with limit {} h gave {:?}, expected {}",
                            k, hour, li, who, off.abs(), if off < 0 { "before" } else { "after" }, ttl, got, if want { format!("{:?}", expect) } else { "nothing".to_string() }
                        ),
                        cj(),
                    ));
                    return out;
                }
            }
        }
    }
    if repeated {
        ctx.nontrivial(&("history", &c.password, &c.lists, &c.steps, c.start_hour));
        ctx.class("history:same-list-encoded-again-later");
    }
    out
}

// ---------------- node level: beacon written by one real node, read by another ----------------

#[derive(Clone, Debug, Serialize, Deserialize)]
pub struct NodeBeacon {
    pub password: Option<String>,
    /// password of the reading node (None = the same)
    pub other_password: Option<String>,
    pub store_hour: u32,
    /// hours between writing and reading (added to the clock; the stamp has 16 bits, so 65536 - k reads as k hours "ahead")
    pub age_hours: u32,
    /// advertised addresses of the writing node (0..=2; with the socket address at most 3 own addresses, all of which are written)
    pub advertise: u8,
    /// 0 file as written, 1 embedded in other text, 2 embedded with separators between all characters
    pub wrap: u8,
}

static BEACON_FILE_NO: std::sync::atomic::AtomicU64 = std::sync::atomic::AtomicU64::new(0);

/// What `housekeep` does with `beacon_store` / `beacon_load`: node A writes its own addresses to a file, node B
/// (started `age_hours` later) reads the file and must dial A iff it has the same beacon password and the beacon is
/// at most 50 hours old in either direction (the limit `load_beacon` passes); otherwise it must stay silent.
pub fn node_beacon_case(ctx: &Ctx, c: &NodeBeacon) -> Vec<Viol> {
    use crate::sim::{base_config, sim_addr, NetSim};
    use vpncloud::payload::Frame;
    ctx.eval();
    let cj = || json!({"kind": "node-beacon", "case": c});
    let mut out = vec![];
    let dir = format!("{}/target/c17-beacons", crate::engine::verif_dir());
    let _ = std::fs::create_dir_all(&dir);
    let path = format!("{}/{}-{}.txt", dir, std::process::id(), BEACON_FILE_NO.fetch_add(1, std::sync::atomic::Ordering::Relaxed));
    let _ = std::fs::remove_file(&path);
    let t_store = c.store_hour as i64 * 3600 + 1000;
    let adv: Vec<String> = (0..c.advertise.min(2)).map(|k| format!("[fd00:77::{}]:{}", k + 1, 4000 + k as u16)).collect();
    // --- writer
    let own: Vec<SocketAddr>;
    {
        let mut sim: NetSim<Frame> = NetSim::new();
        sim.now = t_store;
        MockTimeSource::set_time(t_store);
        let mut cfg = base_config();
        cfg.auto_claim = false;
        cfg.beacon_store = Some(path.clone());
        cfg.beacon_password = c.password.clone();
        cfg.advertise_addresses = adv.clone();
        let a = sim.add_node(&cfg, false);
        sim.run(3);
        if let Some((_, p, w)) = sim.panics.first() {
            out.push(Viol::new(format!("node-beacon-{}", p.sig()), format!("writing node panicked: {} ({})", p.msg, w), cj()));
            let _ = std::fs::remove_file(&path);
            return out;
        }
        own = sim.nodes[a].node.verif_own_addresses();
    }
    let text = match std::fs::read_to_string(&path) {
        Ok(t) => t,
        Err(e) => {
            out.push(Viol::new("node-beacon-not-written", format!("beacon_store = {} but no readable file after 3 housekeeping rounds: {}", path, e), cj()));
            return out;
        }
    };
    // the file holds exactly the node's own addresses (at most 3 are written; the node has at most 3)
    let ser = Ser::new(c.password.clone().unwrap_or_default().as_bytes());
    MockTimeSource::set_time(t_store);
    let mut listed = ser.decode(&text, Some(0));
    listed.sort();
    let mut own_sorted = own.clone();
    own_sorted.sort();
    own_sorted.dedup();
    if listed != own_sorted {
        out.push(Viol::new("node-beacon-wrong-addresses", format!("node with own addresses {:?} wrote a beacon that decodes to {:?}", own_sorted, listed), cj()));
    }
    // optionally embed the beacon in other text, as a web page or DNS TXT record would
    let wrapped = match c.wrap {
        0 => None,
        1 => Some(format!("<html><body>\nstatus: ok 17\n<p>{}</p>\n-- \n</body></html>\n", text.trim())),
        _ => Some(format!("# {}\n", text.trim().chars().map(|ch| ch.to_string()).collect::<Vec<_>>().join("-\n "))),
    };
    if let Some(w) = wrapped {
        let _ = std::fs::remove_file(&path);
        if std::fs::write(&path, w).is_err() {
            return out;
        }
    }
    // --- reader, age_hours later
    let t_load = t_store + c.age_hours as i64 * 3600;
    let same_pw = c.other_password.is_none() || c.other_password == c.password;
    let fresh = age_ok(t_load / 3600, t_store / 3600, 50);
    {
        let mut sim: NetSim<Frame> = NetSim::new();
        sim.now = t_load;
        MockTimeSource::set_time(t_load);
        let mut cfg = base_config();
        cfg.auto_claim = false;
        let a = sim.add_node(&cfg, false); // the writer's process, still listening on its address
        let mut cfgb = base_config();
        cfgb.auto_claim = false;
        cfgb.beacon_load = Some(path.clone());
        cfgb.beacon_password = if c.other_password.is_some() { c.other_password.clone() } else { c.password.clone() };
        let b = sim.add_node(&cfgb, false);
        sim.record = true;
        sim.run(4);
        if let Some((i, p, w)) = sim.panics.first() {
            out.push(Viol::new(format!("node-beacon-{}", p.sig()), format!("node {} panicked while loading the beacon: {} ({})", i, p.msg, w), cj()));
        } else {
            let connected = sim.is_connected(b, a) && sim.is_connected(a, b);
            let b_addr = sim_addr(b);
            let dialled: Vec<SocketAddr> = sim.wire_log.iter().filter(|d| d.src == b_addr).map(|d| d.dst).collect();
            if same_pw && fresh {
                if !connected {
                    out.push(Viol::new(
                        "node-beacon-not-followed",
                        format!("reader with the same password, beacon {} h old (limit 50): not connected to the writer after 4 s; datagrams sent by the reader went to {:?}", c.age_hours, dialled),
                        cj(),
                    ));
                }
                for o in &own_sorted {
                    if !dialled.contains(o) {
                        out.push(Viol::new("node-beacon-address-not-dialled", format!("address {} of the beacon was never dialled (dialled: {:?})", o, dialled), cj()));
                        break;
                    }
                }
                ctx.class("node-beacon:followed");
            } else {
                if !dialled.is_empty() || connected {
                    out.push(Viol::new(
                        "node-beacon-followed-wrongly",
                        format!("reader (same password: {}, beacon age {} h, limit 50) dialled {:?}", same_pw, c.age_hours, dialled),
                        cj(),
                    ));
                }
                ctx.class(if same_pw { "node-beacon:ignored-out-of-age" } else { "node-beacon:ignored-other-password" });
            }
            ctx.nontrivial(&("node-beacon", &c.password, &c.other_password, c.store_hour, c.age_hours, c.advertise, c.wrap));
        }
    }
    let _ = std::fs::remove_file(&path);
    out
}

/// One running node polls an unchanged beacon file again and again (every beacon interval): it must follow the
/// beacon while it is at most 50 h old and stop following it afterwards, although neither the file nor the node changed.
/// `hours`: clock jumps (suspend / long uptime) between polls, cumulative age of the beacon after each.
pub fn node_beacon_poll_case(ctx: &Ctx, password: &Option<String>, hours: &[u32]) -> Vec<Viol> {
    use crate::sim::{base_config, NetSim};
    use vpncloud::payload::Frame;
    ctx.eval();
    let cj = || json!({"kind": "node-beacon-poll", "password": password, "hours": hours});
    let mut out = vec![];
    let dir = format!("{}/target/c17-beacons", crate::engine::verif_dir());
    let _ = std::fs::create_dir_all(&dir);
    let path = format!("{}/{}-poll-{}.txt", dir, std::process::id(), BEACON_FILE_NO.fetch_add(1, std::sync::atomic::Ordering::Relaxed));
    let _ = std::fs::remove_file(&path);
    let t0 = 7000 * 3600 + 1000;
    let mut sim: NetSim<Frame> = NetSim::new();
    sim.now = t0;
    MockTimeSource::set_time(t0);
    let mut cfg = base_config();
    cfg.auto_claim = false;
    cfg.beacon_store = Some(path.clone());
    cfg.beacon_password = password.clone();
    cfg.beacon_interval = 100_000_000; // written once
    let a = sim.add_node(&cfg, false);
    sim.run(3);
    let mut cfgb = base_config();
    cfgb.auto_claim = false;
    cfgb.beacon_load = Some(path.clone());
    cfgb.beacon_password = password.clone();
    cfgb.beacon_interval = 600;
    let b = sim.add_node(&cfgb, false);
    sim.run(5);
    if !sim.is_connected(b, a) {
        out.push(Viol::new("node-beacon-not-followed", "reader did not connect through a fresh beacon".to_string(), cj()));
        let _ = std::fs::remove_file(&path);
        return out;
    }
    // the writer goes away for good; the reader forgets it and its re-dials give up
    sim.nodes[a].dead = true;
    sim.run(600);
    let a_addr = sim.addr(a);
    let mut age_h = 0u32;
    for h in hours {
        // let a handshake attempt that an earlier poll started die out (120 retries), so that what is seen afterwards
        // is caused by the polls of this step
        for _ in 0..400 {
            if !sim.nodes[b].node.verif_pending().contains(&a_addr) {
                break;
            }
            sim.tick();
        }
        if sim.nodes[b].node.verif_pending().contains(&a_addr) {
            ctx.class("node-beacon-poll:inconclusive(pending-handshake-never-ends)");
            break;
        }
        // time passes (the file is not touched), then the reader polls again
        sim.now += (*h as i64 - age_h as i64).max(0) * 3600;
        age_h = (*h).max(age_h);
        MockTimeSource::set_time(sim.now);
        let mut dialled = false;
        for _ in 0..700 {
            // more than one beacon interval: at least one poll
            sim.tick();
            if sim.nodes[b].node.verif_pending().contains(&a_addr) {
                dialled = true;
            }
        }
        if let Some((i, p, w)) = sim.panics.first() {
            out.push(Viol::new(format!("node-beacon-{}", p.sig()), format!("node {} panicked: {} ({})", i, p.msg, w), cj()));
            break;
        }
        // age in whole hours of the 16-bit counter, as the format defines it
        let fresh = age_ok(sim.now / 3600, t0 / 3600, 50) && age_ok((sim.now - 700) / 3600, t0 / 3600, 50);
        let stale = !age_ok(sim.now / 3600, t0 / 3600, 50) && !age_ok((sim.now - 700) / 3600, t0 / 3600, 50);
        if fresh && !dialled {
            out.push(Viol::new("node-beacon-not-followed", format!("the beacon is {} h old (limit 50) but a later poll of the running node no longer follows it", age_h), cj()));
        } else if stale && dialled {
            out.push(Viol::new("node-beacon-followed-wrongly", format!("the beacon is {} h old (limit 50) and the running node still dials its addresses", age_h), cj()));
        }
        ctx.class(if fresh { "node-beacon-poll:followed-again" } else if stale { "node-beacon-poll:ignored-when-too-old" } else { "node-beacon-poll:at-the-limit(not-judged)" });
    }
    ctx.nontrivial(&("node-beacon-poll", password, hours));
    let _ = std::fs::remove_file(&path);
    out
}

pub fn run(ctx: &Ctx) {
    ctx.rule(
        "case = (password, address lists with 0..8 IPv4 + 0..4 IPv6 entries, host text built from pieces \
         {alphanumeric filler, separators incl. non-ASCII, beacon i, partial begin/end markers, overlapping \
         markers, marker-framed garbage}, separator interleaving inside beacons, encode hour, decode hour, age \
         limit). Oracle: exact recovery when the text holds no stray complete marker, contains-in-order otherwise; \
         out-of-age => nothing; other password => not recovered; never a panic. Non-trivial = at least one \
         non-empty list embedded; distinct = hash of the whole case.",
    );
    ctx.assume("host texts in which a beacon body contains a marker by accident (p ~ 1e-7 per beacon) are classified and skipped");

    // (1) all 65536 hour stamps for one list (exhaustive), same password
    let base_list = vec!["1.2.3.4:5678".to_string(), "6.6.6.6:53".to_string(), "[2001:db8::1]:3210".to_string()];
    ctx.par_range_chunked(65536, 512, |_, h| {
        let c = Case {
            password: "mysecretkey".into(),
            other_password: None,
            lists: vec![base_list.clone()],
            pieces: vec![Piece::Beacon(0)],
            sep_every: 0,
            encode_hour: h as i64,
            decode_hour: h as i64,
            ttl: Some(0),
        };
        let v = check_case(ctx, &c);
        if h == 2000 {
            ctx.sample("all-hours", || serde_json::to_value(&c).unwrap());
        }
        ctx.report(v);
    });
    ctx.subspace("all 65536 hour stamps x one 3-entry list", 65536, true);

    // (2) every password x list shapes (0..8 v4 x 0..4 v6), several hours
    let pws = passwords();
    let hours: Vec<i64> = ctx.tier.pick(vec![0, 2000, 65535], vec![0, 1, 255, 256, 2000, 40000, 65535, 70000]);
    ctx.par_range((pws.len() * 9 * 5) as u64, |w, i| {
        let i = i as usize;
        let pw = &pws[i / 45];
        let n4 = (i % 45) / 5;
        let n6 = i % 5;
        let mut rng = ctx.rng("shapes", i);
        let _ = w;
        for h in &hours {
            let c = Case {
                password: pw.clone(),
                other_password: Some(pws[(i / 45 + 1) % pws.len()].clone()),
                lists: vec![gen_list(&mut rng, n4, n6)],
                pieces: vec![Piece::Alnum("x9".into()), Piece::Beacon(0), Piece::Sep("\n".into())],
                sep_every: 0,
                encode_hour: *h,
                decode_hour: *h,
                ttl: None,
            };
            let v = check_case(ctx, &c);
            ctx.report(v);
        }
    });
    ctx.subspace("200 passwords x list shapes (0..=8 IPv4 x 0..=4 IPv6) x hours", (pws.len() * 45 * hours.len()) as u64, true);

    // (3) overlapping markers: begin + end[k..] for every password and k (panic freedom)
    ctx.par_range((pws.len() * 6) as u64, |_, i| {
        let i = i as usize;
        let c = Case {
            password: pws[i / 6].clone(),
            other_password: None,
            lists: vec![vec![]],
            pieces: vec![Piece::Alnum("ab".into()), Piece::Overlap(i % 6), Piece::Alnum("Zz".into())],
            sep_every: 0,
            encode_hour: 2000,
            decode_hour: 2000,
            ttl: Some(50),
        };
        let v = check_case(ctx, &c);
        if i < 2 {
            ctx.sample("overlap", || serde_json::to_value(&c).unwrap());
        }
        ctx.report(v);
    });
    ctx.subspace("200 passwords x begin-marker + end-marker minus its first k characters, k = 0..=5", (pws.len() * 6) as u64, true);

    // (4) age limits: every limit x boundary offsets, fixed list (exhaustive over limits)
    let ttl_step: u64 = ctx.tier.pick(16, 1);
    ctx.par_range_chunked(65536 / ttl_step, 256, |_, k| {
        let t = (k * ttl_step) as u16;
        for (dir, extra) in [(1i64, -1i64), (1, 0), (1, 1), (-1, 1), (-1, 0), (-1, -1), (1, 2), (-1, -2)] {
            let enc = 100_000i64;
            let dec = enc + dir * t as i64 + extra;
            let c = Case {
                password: "test123".into(),
                other_password: None,
                lists: vec![vec!["10.0.0.1:3210".into()]],
                pieces: vec![Piece::Beacon(0)],
                sep_every: 0,
                encode_hour: enc,
                decode_hour: dec,
                ttl: Some(t),
            };
            let v = check_case(ctx, &c);
            ctx.report(v);
        }
    });
    ctx.subspace("age limits 0..=65535 (step per tier) x 8 boundary offsets in both directions", 65536 / ttl_step * 8, ttl_step == 1);

    // (5) proptest: embedded texts without stray complete markers (exact oracle), with shrinking
    let n1: u32 = ctx.tier.pick(30_000, 300_000);
    ctx.proptest("pt-clean", n1, || case_strategy(false), |c| {
        let v = check_case(ctx, c);
        ctx.sample("embedded-text", || serde_json::to_value(c).unwrap());
        v
    });
    ctx.subspace("proptest: host texts with separators / partial markers / several beacons", n1 as u64, false);

    // (6) proptest: texts with overlapping markers and marker-framed garbage
    let n2: u32 = ctx.tier.pick(30_000, 300_000);
    ctx.proptest("pt-stray", n2, || case_strategy(true), |c| {
        let v = check_case(ctx, c);
        ctx.sample("stray-markers", || serde_json::to_value(c).unwrap());
        v
    });
    ctx.subspace("proptest: host texts with overlapping markers and marker-framed random bodies", n2 as u64, false);

    // (7) arbitrary unicode text (panic freedom)
    let n3: u32 = ctx.tier.pick(30_000, 300_000);
    ctx.proptest(
        "pt-text",
        n3,
        || (any::<u16>(), "\\PC{0,200}"),
        |(pi, text)| {
            ctx.eval();
            let pws = passwords();
            let ser = Ser::new(pws[pick_idx(*pi, pws.len())].as_bytes());
            match catch(|| ser.decode(text, Some(50))) {
                Ok(_) => vec![],
                Err(p) => vec![Viol::new(
                    format!("decode-text-{}", p.sig()),
                    format!("beacon extraction panicked on arbitrary text: {}", p.msg),
                    json!({"password": pws[pick_idx(*pi, pws.len())], "text": text}),
                )],
            }
        },
    );
    ctx.subspace("proptest: arbitrary printable unicode text up to 200 chars", n3 as u64, false);
    // (8) node level: a real node writes the beacon file, another real node reads it (what housekeeping does)
    let mut nb = vec![];
    let pw_list = [None, Some("mysecretkey".to_string()), Some("p\u{e4}ss w\u{f6}rd".to_string())];
    for (pi, pw) in pw_list.iter().enumerate() {
        for age in [0u32, 1, 49, 50, 51, 52, 1000, 65536 - 51, 65536 - 50, 65536 - 1, 65536] {
            for store_hour in ctx.tier.pick(vec![5u32, 65530], vec![0u32, 5, 539, 540, 541, 40000, 65500, 65530]) {
                let k = nb.len();
                nb.push(NodeBeacon { password: pw.clone(), other_password: None, store_hour, age_hours: age, advertise: (k % 3) as u8, wrap: ((k / 3) % 3) as u8 });
                if age <= 1 {
                    nb.push(NodeBeacon { password: pw.clone(), other_password: Some(pw_list[(pi + 1) % 3].clone().unwrap_or_default()), store_hour, age_hours: age, advertise: (k % 3) as u8, wrap: 0 });
                }
            }
        }
    }
    let nnb = nb.len() as u64;
    ctx.par_items(&nb, |_, c| {
        let v = node_beacon_case(ctx, c);
        ctx.report(v);
    });
    ctx.sample("node-beacon", || serde_json::to_value(&nb[7]).unwrap());
    ctx.subspace("node level: beacon file written by a real node (own addresses, 0..2 advertised) and read by another one x 3 passwords x ages around the 50 h limit in both directions x store hours x embedding; other password", nnb, false);
    // (8b) a running node polling the same unchanged file over days
    {
        let polls: Vec<(Option<String>, Vec<u32>)> = vec![
            (None, vec![1, 30, 50, 51, 80]),
            (Some("mysecretkey".to_string()), vec![49, 52]),
            (Some("mysecretkey".to_string()), vec![10, 20, 60, 65530, 65536 + 10, 65536 + 60]),
            (None, vec![51, 200]),
        ];
        let np = polls.len() as u64;
        ctx.par_items(&polls, |_, (pw, hours)| {
            let v = node_beacon_poll_case(ctx, pw, hours);
            ctx.report(v);
        });
        ctx.subspace("node level: one running node polls an unchanged beacon file at ages 1 h .. 65596 h (followed iff at most 50 h old in either direction of the 16-bit hour counter)", np, false);
    }
    // (9) one long-lived serializer: all step sequences of length <= 4 over {0, 1, 49, 51, 100 h} x 2 lists, and sampled longer ones
    {
        let dhs = [0u32, 1, 49, 51, 100];
        let lists2 = vec![vec!["10.1.2.3:3210".to_string(), "[2001:db8::7]:3210".to_string()], vec!["192.168.5.5:1".to_string()]];
        let alpha: Vec<(u32, u8)> = dhs.iter().flat_map(|d| (0..2u8).map(move |l| (*d, l))).collect();
        let depth = ctx.tier.pick(3u32, 4);
        let total = (alpha.len() as u64).pow(depth);
        ctx.par_range_chunked(total, 64, |_, mut i| {
            let mut steps = vec![];
            for _ in 0..depth {
                steps.push(alpha[(i % alpha.len() as u64) as usize]);
                i /= alpha.len() as u64;
            }
            let c = History { password: "mysecretkey".into(), lists: lists2.clone(), steps, start_hour: 65500 };
            let v = check_history(ctx, &c);
            ctx.report(v);
        });
        ctx.subspace(&format!("long-lived serializer: all sequences of {} encodes over 5 time steps x 2 lists, each beacon read at production time, +-50 h and +-51 h by the same and by a fresh serializer", depth), total, true);
        let nh: u32 = ctx.tier.pick(3_000, 30_000);
        ctx.proptest(
            "pt-history",
            nh,
            || (any::<u16>(), proptest::collection::vec((prop_oneof![Just(0u32), 1u32..60, 60u32..70000], 0u8..3), 1..12), any::<u16>(), any::<u64>()),
            |(pi, steps, start, seed)| {
                let pws = passwords();
                let mut rng = ctx.rng("hist", (*seed % 64) as usize);
                let lists = vec![gen_list(&mut rng, 1 + (*seed % 4) as usize, (*seed / 4 % 3) as usize), gen_list(&mut rng, 2, 0), gen_list(&mut rng, 0, 1)];
                let c = History { password: pws[pick_idx(*pi, pws.len())].clone(), lists, steps: steps.clone(), start_hour: *start as u32 + 100 }; // the clock never shows a negative time: readers 51 h before production need hour >= 51
                let v = check_history(ctx, &c);
                ctx.sample("history", || serde_json::to_value(&c).unwrap());
                v
            },
        );
        ctx.subspace("proptest: encode histories of one serializer (up to 12 encodes, time steps 0..70000 h, 3 lists)", nh as u64, false);
    }
    if std::env::var("VCHECK_FUZZ").is_ok() && !ctx.quick() {
        crate::fuzzdrv::run_campaign_par(ctx, "beacon_text", 1_600_000, 8, 4096);
    }
}

pub fn replay(ctx: &Ctx, case: &Value) {
    if crate::fuzzdrv::replay(ctx, case) {
        return;
    }
    if case["kind"].as_str() == Some("node-beacon-poll") {
        let pw = case["password"].as_str().map(|s| s.to_string());
        let hours: Vec<u32> = case["hours"].as_array().map(|a| a.iter().filter_map(|x| x.as_u64().map(|v| v as u32)).collect()).unwrap_or_default();
        let v = node_beacon_poll_case(ctx, &pw, &hours);
        ctx.report(v);
    } else if case["kind"].as_str() == Some("history") {
        if let Ok(c) = serde_json::from_value::<History>(case["case"].clone()) {
            let v = check_history(ctx, &c);
            ctx.report(v);
        }
    } else if case["kind"].as_str() == Some("node-beacon") {
        if let Ok(c) = serde_json::from_value::<NodeBeacon>(case["case"].clone()) {
            let v = node_beacon_case(ctx, &c);
            ctx.report(v);
        }
    } else if let Ok(c) = serde_json::from_value::<Case>(case.clone()) {
        let v = check_case(ctx, &c);
        ctx.report(v);
    } else if let (Some(pw), Some(text)) = (case["password"].as_str(), case["text"].as_str()) {
        ctx.eval();
        let ser = Ser::new(pw.as_bytes());
        if let Err(p) = catch(|| ser.decode(text, Some(50))) {
            ctx.violation(Viol::new(format!("decode-text-{}", p.sig()), p.msg, case.clone()));
        }
    }
}
