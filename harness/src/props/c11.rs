//! C11 - routing follows the most specific live claim.
//! (a) Range::matches against a bit-by-bit reference (exhaustive small universes + random);
//! (b) ClaimTable against RouteRef, a history-based reference model (exhaustive short histories +
//!     proptest histories); (c) node level: see c11 node part in `node_level`.

use crate::engine::{pick_idx, Ctx, Viol};
use crate::sim::{catch, T0};
use proptest::prelude::*;
use serde::{Deserialize, Serialize};
use serde_json::{json, Value};
use std::collections::{BTreeMap, BTreeSet};
use std::net::SocketAddr;
use vpncloud::table::ClaimTable;
use vpncloud::types::{Address, Range};
use vpncloud::util::MockTimeSource;

// ---------------- (a) prefix matching ----------------

fn bit(data: &[u8], i: usize) -> bool {
    (data[i / 8] >> (7 - i % 8)) & 1 == 1
}

/// bit-by-bit reference: lengths equal, and the first `prefix` bits exist and agree
pub fn ref_matches(base: &[u8], prefix: u8, addr: &[u8]) -> bool {
    if base.len() != addr.len() {
        return false;
    }
    let p = prefix as usize;
    if p > base.len() * 8 {
        return false; // no address has that many bits in common
    }
    (0..p).all(|i| bit(base, i) == bit(addr, i))
}

pub fn mk_addr(b: &[u8]) -> Address {
    let mut data = [0u8; 16];
    data[..b.len()].copy_from_slice(b);
    Address { data, len: b.len() as u8 }
}

fn check_match(ctx: &Ctx, base: &[u8], prefix: u8, addr: &[u8]) -> Option<Viol> {
    let r = Range { base: mk_addr(base), prefix_len: prefix };
    let got = r.matches(mk_addr(addr));
    let exp = ref_matches(base, prefix, addr);
    if got != exp {
        return Some(Viol::new(
            "prefix-match-differs",
            format!("Range {:?}/{} matches({:?}) = {}, bit-by-bit reference says {}", base, prefix, addr, got, exp),
            json!({"kind": "match", "base": base, "prefix": prefix, "addr": addr}),
        ));
    }
    let _ = ctx;
    None
}

// ---------------- (b) table vs RouteRef ----------------

#[derive(Clone, Debug, Serialize, Deserialize, PartialEq)]
pub enum Op {
    /// peer announces exactly this set of ranges (indices into the universe)
    Announce(u8, Vec<u8>),
    Disconnect(u8),
    Lookup(u8),
    /// advance time by n seconds, housekeeping every second
    Tick(u32),
    /// address (index) is learned from a peer: payload with that source arrived from it
    Learn(u8, u8),
}

#[derive(Clone, Debug, Serialize, Deserialize)]
pub struct TableCase {
    pub switch_timeout: u32,
    pub claim_timeout: u32,
    pub ops: Vec<Op>,
    /// C13's clause on top of C11's: an address learned from peer P must resolve to P (and only P) until it is
    /// learned from another peer, the switch timeout passes, or P is removed (used by the C13 check)
    #[serde(default)]
    pub strict_learning: bool,
}

pub const N_RANGES: u8 = 13;
pub const N_ADDRS: u8 = 14;

pub fn universe_ranges() -> Vec<Range> {
    [
        "0.0.0.0/0", "10.0.0.0/8", "10.0.0.0/15", "10.1.0.0/16", "10.1.2.0/24", "10.1.2.3/32", "fd00::/8", "fd00:1::/32", "02:00:00:00:00:00/8",
        // nesting beyond 32 bits (IPv6 and MAC): longest-prefix match must not stop at an IPv4-sized prefix
        "fd00:1:0:1::/64", "fd00:1:0:1::5/128", "02:11:22:33:00:00/32", "02:11:22:33:44:00/40",
    ]
        .iter()
        .map(|s| s.parse().unwrap())
        .collect()
}

pub fn universe_addrs() -> Vec<Address> {
    [
        "10.1.2.3", "10.1.2.4", "10.1.3.1", "10.0.0.1", "10.2.0.1", "11.0.0.1", "fd00:1::5", "fd00:2::5", "fe80::1", "02:11:22:33:44:55", "04:11:22:33:44:55",
        "fd00:1:0:1::5", "fd00:1:0:1::6", "02:11:22:33:55:01",
    ]
        .iter()
        .map(|s| s.parse().unwrap())
        .collect()
}

pub fn peer_addr(i: u8) -> SocketAddr {
    format!("[::ffff:192.168.0.{}]:{}", i + 1, 3210 + i as u16).parse().unwrap()
}

#[derive(Clone, Debug)]
struct RefClaim {
    born: i64,
    expiry: i64,
}

#[derive(Clone, Debug)]
struct Decision {
    peer: u8,
    made_at: i64,
}

/// History-based reference model of route selection (written from the property statement).
pub struct RouteRef {
    pub switch_timeout: i64,
    pub claim_timeout: i64,
    ranges: Vec<Range>,
    /// (peer, range index) -> claim
    claims: BTreeMap<(u8, u8), RefClaim>,
    /// address index -> last decision that was justified as a fresh one
    decisions: BTreeMap<u8, Decision>,
    /// address index -> (peer it was learned from, when)
    learned: BTreeMap<u8, (u8, i64)>,
    /// learned entries whose peer withdrew one of its own claims afterwards: the table may have dropped them
    /// together with the decisions cached from that claim (C12), so they are no longer demanded
    soft: BTreeSet<u8>,
    /// last announced list per peer as given (with duplicates)
    last_list: BTreeMap<u8, Vec<u8>>,
    pub strict_learning: bool,
}

impl RouteRef {
    pub fn new(switch_timeout: u32, claim_timeout: u32, ranges: Vec<Range>) -> Self {
        RouteRef { switch_timeout: switch_timeout as i64, claim_timeout: claim_timeout as i64, ranges, claims: BTreeMap::new(), decisions: BTreeMap::new(), learned: BTreeMap::new(), soft: BTreeSet::new(), last_list: BTreeMap::new(), strict_learning: false }
    }

    pub fn announce(&mut self, now: i64, peer: u8, set: &[u8]) {
        let old: Vec<(u8, u8)> = self.claims.keys().filter(|(p, _)| *p == peer).copied().collect();
        // an entry of the previous list (duplicates count) that the new list lacks is a withdrawal by that peer
        let prev = self.last_list.insert(peer, set.to_vec()).unwrap_or_default();
        let mut rest = set.to_vec();
        let mut withdrew = false;
        for r in prev {
            match rest.iter().position(|x| *x == r) {
                Some(i) => {
                    rest.swap_remove(i);
                }
                None => withdrew = true,
            }
        }
        if withdrew {
            for (a, (lp, _)) in self.learned.iter() {
                if *lp == peer {
                    self.soft.insert(*a);
                }
            }
        }
        for k in old {
            if !set.contains(&k.1) {
                self.claims.remove(&k);
            }
        }
        for r in set {
            let e = self.claims.entry((peer, *r)).or_insert(RefClaim { born: now, expiry: 0 });
            if e.expiry < now {
                // had lapsed: a new life
                e.born = now;
            }
            e.expiry = now + self.claim_timeout;
        }
    }

    pub fn disconnect(&mut self, peer: u8) {
        self.claims.retain(|(p, _), _| *p != peer);
        self.decisions.retain(|_, d| d.peer != peer);
        self.learned.retain(|_, (p, _)| *p != peer);
        let l = &self.learned;
        self.soft.retain(|a| l.contains_key(a));
        self.last_list.remove(&peer);
    }

    pub fn learn(&mut self, now: i64, addr_idx: u8, peer: u8) {
        self.learned.insert(addr_idx, (peer, now));
        self.soft.remove(&addr_idx);
    }

    /// claims of a peer that may be live now: set of range indices
    pub fn maybe_live(&self, now: i64, peer: u8) -> Vec<u8> {
        self.claims.iter().filter(|((p, _), c)| *p == peer && now <= c.expiry).map(|((_, r), _)| *r).collect()
    }

    pub fn surely_live(&self, now: i64, peer: u8) -> Vec<u8> {
        self.claims.iter().filter(|((p, _), c)| *p == peer && now < c.expiry).map(|((_, r), _)| *r).collect()
    }

    /// Judges a lookup result; returns Err(description) when no reading of the property allows it.
    pub fn judge(&mut self, now: i64, addr_idx: u8, addr: Address, result: Option<u8>) -> Result<&'static str, String> {
        let contains = |r: u8| {
            let rg = &self.ranges[r as usize];
            ref_matches(&rg.base.data[..rg.base.len as usize], rg.prefix_len, &addr.data[..addr.len as usize])
        };
        if self.strict_learning {
            if let Some((lp, lt)) = self.learned.get(&addr_idx) {
                if now < lt + self.switch_timeout && !self.soft.contains(&addr_idx) && result != Some(*lp) {
                    return Err(format!(
                        "learned-forgotten: address was learned from peer {} at t={} (switch timeout {}), that peer is still connected and nothing was learned since, but the lookup at t={} gives {:?}",
                        lp, lt, self.switch_timeout, now, result
                    ));
                }
            }
        }
        let sure_max: Option<u8> = self.claims.iter().filter(|((_, r), c)| now < c.expiry && contains(*r)).map(|((_, r), _)| self.ranges[*r as usize].prefix_len).max();
        match result {
            None => {
                if let Some(m) = sure_max {
                    return Err(format!("no next hop although a live claim with prefix length {} contains the address", m));
                }
                self.decisions.remove(&addr_idx);
                Ok("none")
            }
            Some(p) => {
                // fresh decision: p holds a (maybe) live claim containing addr that is at least as specific as every surely live one
                let fresh = self
                    .claims
                    .iter()
                    .any(|((q, r), c)| *q == p && now <= c.expiry && contains(*r) && self.ranges[*r as usize].prefix_len >= sure_max.unwrap_or(0));
                if fresh {
                    self.decisions.insert(addr_idx, Decision { peer: p, made_at: now });
                    return Ok("fresh");
                }
                // a learned address is a cached decision too: valid for the switch timeout while its peer is connected
                if let Some((lp, lt)) = self.learned.get(&addr_idx) {
                    if *lp == p && now <= lt + self.switch_timeout {
                        return Ok("learned");
                    }
                }
                // reuse of a cached decision: made no longer than the switch timeout ago, from a claim of p that has
                // been live ever since, p never disconnected since
                if let Some(d) = self.decisions.get(&addr_idx) {
                    if d.peer == p && now <= d.made_at + self.switch_timeout {
                        let backed = self.claims.iter().any(|((q, r), c)| *q == p && contains(*r) && now <= c.expiry && c.born <= d.made_at);
                        if backed {
                            return Ok("cached");
                        }
                        return Err(format!("cached decision for peer {} reused beyond the life of the claim it came from", p));
                    }
                    if d.peer == p {
                        return Err(format!(
                            "decision for peer {} made at t={} reused at t={} (switch timeout {}) although a more specific live claim exists",
                            p, d.made_at, now, self.switch_timeout
                        ));
                    }
                }
                Err(format!("next hop is peer {} which holds no most-specific live claim for the address (best live prefix {:?})", p, sure_max))
            }
        }
    }
}

pub fn run_table_case(ctx: &Ctx, c: &TableCase) -> Vec<Viol> {
    ctx.eval();
    let ranges = universe_ranges();
    let addrs = universe_addrs();
    let mut now = T0;
    MockTimeSource::set_time(now);
    let mut table: ClaimTable<MockTimeSource> = ClaimTable::new(c.switch_timeout, c.claim_timeout);
    let mut model = RouteRef::new(c.switch_timeout, c.claim_timeout, ranges.clone());
    model.strict_learning = c.strict_learning;
    let mut out = vec![];
    let mut nontrivial = false;
    let mut had_change = false;
    for (step, op) in c.ops.iter().enumerate() {
        match op {
            Op::Announce(p, set) => {
                let list = set.iter().map(|r| ranges[*r as usize % ranges.len()]).collect();
                let set: Vec<u8> = set.iter().map(|r| *r % ranges.len() as u8).collect();
                if !model.maybe_live(now, *p).iter().all(|r| set.contains(r)) {
                    had_change = true; // a withdrawal
                }
                if catch(|| table.set_claims(peer_addr(*p), list)).is_err() {
                    out.push(Viol::new("table-panic", format!("set_claims panicked at step {}", step), json!({"kind": "table", "case": c})));
                    return out;
                }
                model.announce(now, *p, &set);
            }
            Op::Disconnect(p) => {
                table.remove_claims(peer_addr(*p));
                model.disconnect(*p);
                had_change = true;
            }
            Op::Tick(n) => {
                for _ in 0..*n {
                    now += 1;
                    MockTimeSource::set_time(now);
                    table.housekeep();
                }
                if *n as i64 >= model.claim_timeout.min(model.switch_timeout) {
                    had_change = true;
                }
            }
            Op::Learn(p, a) => {
                let ai = *a % addrs.len() as u8;
                table.cache(addrs[ai as usize], peer_addr(*p));
                model.learn(now, ai, *p);
                had_change = true;
            }
            Op::Lookup(a) => {
                let ai = *a % addrs.len() as u8;
                let addr = addrs[ai as usize];
                let res = table.lookup(addr);
                let res_peer = res.and_then(|sa| (0..8u8).find(|i| peer_addr(*i) == sa));
                if res.is_some() && res_peer.is_none() {
                    out.push(Viol::new("lookup-unknown-peer", format!("lookup returned unknown peer {:?}", res), json!({"kind": "table", "case": c})));
                    return out;
                }
                // how many live claims contain the address?
                let containing = (0..4u8)
                    .flat_map(|p| model.maybe_live(now, p).into_iter().map(move |r| (p, r)))
                    .filter(|(_, r)| {
                        let rg = &ranges[*r as usize];
                        ref_matches(&rg.base.data[..rg.base.len as usize], rg.prefix_len, &addr.data[..addr.len as usize])
                    })
                    .count();
                if containing >= 2 || had_change {
                    nontrivial = true;
                }
                match model.judge(now, ai, addr, res_peer) {
                    Ok(kind) => ctx.class(&format!("lookup:{}", kind)),
                    Err(why) => {
                        let sig = if why.starts_with("learned-forgotten") {
                            "learned-address-forgotten-before-timeout"
                        } else if why.contains("holds no most-specific") || why.contains("no next hop") {
                            "lookup-not-most-specific-live-claim"
                        } else {
                            "cached-decision-outlives-timeout-or-claim"
                        };
                        out.push(Viol::new(
                            sig,
                            format!("step {} lookup({}) -> {:?}: {}", step, addr, res_peer, why),
                            json!({"kind": "table", "case": c}),
                        ));
                        return out;
                    }
                }
            }
        }
    }
    if nontrivial {
        ctx.nontrivial(&("table", c.switch_timeout, c.claim_timeout, format!("{:?}", c.ops)));
    }
    out
}

pub fn op_strategy() -> impl Strategy<Value = Op> {
    prop_oneof![
        4 => (0u8..3, proptest::collection::vec(0u8..N_RANGES, 0..4)).prop_map(|(p, s)| Op::Announce(p, s)),
        1 => (0u8..3).prop_map(Op::Disconnect),
        6 => (0u8..N_ADDRS).prop_map(Op::Lookup),
        1 => (0u8..3, 0u8..N_ADDRS).prop_map(|(p, a)| Op::Learn(p, a)),
        3 => prop_oneof![Just(0u32), Just(1), Just(2), Just(4), Just(5), Just(6), Just(11), Just(12), Just(13)].prop_map(Op::Tick),
    ]
}

pub fn run(ctx: &Ctx) {
    ctx.rule(
        "(a) prefix matching: (base, prefix length, address) triples - exhaustive over the 8-bit universe (256 \
         bases x prefix 0..=20 x 256 addresses) and over a 16-bit universe (sampled bases x prefix 0..=20 x all \
         65536 addresses), random 4/6/8/16-byte addresses with prefix 0..=255, unequal lengths. (b) table histories \
         over {announce(peer, set of 9 nested/overlapping ranges), disconnect, lookup(11 addresses hitting every \
         nesting level), advance time with housekeeping each second}: exhaustive to a tier depth over a reduced \
         alphabet, proptest to length 300; every lookup is judged by RouteRef. Non-trivial (table) = a lookup whose \
         address lies in >= 2 live claims or that follows a withdrawal/disconnect/expiry; distinct = op string.",
    );
    ctx.assume("a prefix length larger than the address width matches no address (common leading bits >= prefix length)");
    ctx.assume("exactly at an expiry boundary (now == expiry) both outcomes are accepted; one second later the claim must be gone");

    // ---- (a) exhaustive 8-bit universe
    ctx.par_range(256, |_, base| {
        for prefix in 0..=20u8 {
            for addr in 0..=255u8 {
                ctx.eval();
                if let Some(v) = check_match(ctx, &[base as u8], prefix, &[addr]) {
                    ctx.violation(v);
                }
            }
        }
        ctx.nontrivial(&("m8", base));
    });
    ctx.subspace("prefix match: 1-byte universe, 256 bases x prefix 0..=20 x 256 addresses", 256 * 21 * 256, true);
    // ---- (a) 16-bit universe
    let nb: u64 = ctx.tier.pick(64, 512);
    ctx.par_range(nb * 21, |_, i| {
        let prefix = (i % 21) as u8;
        let k = i / 21;
        let base = [((k * 37 + 11) & 0xff) as u8, ((k * 101 + (k >> 3)) & 0xff) as u8];
        for a in 0..65536u32 {
            if let Some(v) = check_match(ctx, &base, prefix, &[(a >> 8) as u8, a as u8]) {
                ctx.violation(v);
            }
        }
        ctx.evals(65536);
        ctx.nontrivial(&("m16", base, prefix));
    });
    ctx.subspace("prefix match: 2-byte universe, sampled bases x prefix 0..=20 x all 65536 addresses", nb * 21 * 65536, false);
    // ---- (a) random wide addresses
    let nr: u32 = ctx.tier.pick(40_000, 1_000_000);
    ctx.proptest(
        "pt-match",
        nr,
        || {
            (prop_oneof![Just(4usize), Just(6), Just(8), Just(16), 0usize..=16], any::<[u8; 16]>(), any::<[u8; 16]>(), any::<u8>(), 0u8..=130, any::<bool>(), 0usize..=16)
        },
        |(len, base, noise, prefix, common, same_len, other_len)| {
            ctx.eval();
            // address shares `common` leading bits with the base, then differs
            let mut addr = *base;
            let c = (*common as usize).min(len * 8);
            for i in c..len * 8 {
                let b = (noise[i / 8] >> (7 - i % 8)) & 1;
                let mask = 1u8 << (7 - i % 8);
                addr[i / 8] = (addr[i / 8] & !mask) | (b << (7 - i % 8));
            }
            if c < len * 8 {
                addr[c / 8] ^= 1 << (7 - c % 8); // force a difference exactly at bit c
                let keep = addr[c / 8];
                addr[c / 8] = keep;
            }
            let alen = if *same_len { *len } else { *other_len };
            ctx.nontrivial(&("mw", len, &base[..*len], prefix, &addr[..alen.min(16)]));
            check_match(ctx, &base[..*len], *prefix, &addr[..alen]).into_iter().collect()
        },
    );
    ctx.subspace("prefix match: random addresses of 0..=16 bytes, prefix 0..=255, controlled common-prefix length", nr as u64, false);

    // ---- (b) exhaustive short histories over a reduced alphabet
    let alphabet: Vec<Op> = vec![
        Op::Announce(0, vec![1]),        // 10/8
        Op::Announce(0, vec![1, 4]),     // 10/8 + 10.1.2/24
        Op::Announce(1, vec![3]),        // 10.1/16
        Op::Announce(1, vec![4, 5]),     // 10.1.2/24 + /32
        Op::Announce(0, vec![]),         // withdraw all
        Op::Disconnect(1),
        Op::Lookup(0),                   // 10.1.2.3
        Op::Lookup(2),                   // 10.1.3.1
        Op::Tick(1),
        Op::Tick(5),
        Op::Tick(12),
        Op::Learn(1, 2), // 10.1.3.1 learned from peer 1 (which may hold no claim at all)
    ];
    let depth: u32 = ctx.tier.pick(6, 7);
    let total = (alphabet.len() as u64).pow(depth);
    ctx.par_range_chunked(total, 4096, |_, mut i| {
        let mut ops = Vec::with_capacity(depth as usize);
        for _ in 0..depth {
            ops.push(alphabet[(i % alphabet.len() as u64) as usize].clone());
            i /= alphabet.len() as u64;
        }
        let c = TableCase { switch_timeout: 5, claim_timeout: 12, ops, strict_learning: false };
        let v = run_table_case(ctx, &c);
        ctx.report(v);
    });
    ctx.subspace(&format!("table histories: all sequences of length {} over a 12-op alphabet (incl. an address learned from a peer)", depth), total, true);

    // ---- (b') the same over IPv6 / MAC claims nested beyond 32 bits (announcement order: less specific first and last)
    let alphabet6: Vec<Op> = vec![
        Op::Announce(0, vec![7]),      // fd00:1::/32
        Op::Announce(1, vec![9]),      // fd00:1:0:1::/64
        Op::Announce(2, vec![10]),     // fd00:1:0:1::5/128
        Op::Announce(0, vec![11]),     // 02:11:22:33::/32 (MAC)
        Op::Announce(1, vec![12, 8]),  // 02:11:22:33:44::/40 + 02::/8
        Op::Announce(1, vec![]),
        Op::Disconnect(2),
        Op::Lookup(11),                // fd00:1:0:1::5
        Op::Lookup(12),                // fd00:1:0:1::6
        Op::Lookup(9),                 // 02:11:22:33:44:55
        Op::Lookup(13),                // 02:11:22:33:55:01
        Op::Tick(6),
    ];
    let depth6: u32 = ctx.tier.pick(5, 6);
    let total6 = (alphabet6.len() as u64).pow(depth6);
    ctx.par_range_chunked(total6, 4096, |_, mut i| {
        let mut ops = Vec::with_capacity(depth6 as usize);
        for _ in 0..depth6 {
            ops.push(alphabet6[(i % alphabet6.len() as u64) as usize].clone());
            i /= alphabet6.len() as u64;
        }
        let c = TableCase { switch_timeout: 5, claim_timeout: 12, ops, strict_learning: false };
        let v = run_table_case(ctx, &c);
        ctx.report(v);
    });
    ctx.subspace(&format!("table histories: all sequences of length {} over a 12-op alphabet of IPv6 / MAC claims nested beyond 32 bits", depth6), total6, true);

    // ---- (b) proptest histories
    let nh: u32 = ctx.tier.pick(40_000, 400_000);
    ctx.proptest(
        "pt-table",
        nh,
        || (prop_oneof![Just((5u32, 12u32)), Just((12, 5)), Just((1, 1)), Just((6, 6))], proptest::collection::vec(op_strategy(), 0..300)),
        |((s, c), ops)| {
            let case = TableCase { switch_timeout: *s, claim_timeout: *c, ops: ops.clone(), strict_learning: false };
            let v = run_table_case(ctx, &case);
            if ops.len() > 5 && ops.len() < 14 {
                ctx.sample("table-history", || serde_json::to_value(&case).unwrap());
            }
            v
        },
    );
    ctx.subspace("table histories: proptest sequences up to length 300, 3 peers x 9 ranges x 11 addresses", nh as u64, false);

    // ---- (c) node level (router mode, overlapping claims, dropped-payload counter)
    crate::props::node_level::c11_node(ctx);
    let _ = pick_idx(0, 1);

    // coverage-guided search over the same histories (libFuzzer target hist_c11: bytes -> operations -> this oracle);
    // the committed corpus is replayed in-process in every tier, the campaign runs in the thorough tier
    crate::targets::replay_corpus(ctx, "hist_c11");
    if std::env::var("VCHECK_FUZZ").is_ok() && !ctx.quick() {
        crate::fuzzdrv::run_campaign_par(ctx, "hist_c11", 4800000, 16, 256);
    }
}

pub fn replay(ctx: &Ctx, case: &Value) {
    if crate::fuzzdrv::replay(ctx, case) {
        return;
    }
    match case["kind"].as_str() {
        Some("match") => {
            ctx.eval();
            let g = |k: &str| -> Vec<u8> { case[k].as_array().map(|a| a.iter().map(|x| x.as_u64().unwrap_or(0) as u8).collect()).unwrap_or_default() };
            if let Some(v) = check_match(ctx, &g("base"), case["prefix"].as_u64().unwrap_or(0) as u8, &g("addr")) {
                ctx.violation(v);
            }
        }
        Some("table") => {
            if let Ok(c) = serde_json::from_value::<TableCase>(case["case"].clone()) {
                let v = run_table_case(ctx, &c);
                ctx.report(v);
            }
        }
        Some(_) => crate::props::node_level::replay(ctx, case),
        None => {}
    }
}
