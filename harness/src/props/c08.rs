//! C08 - no datagram from an outsider can crash a node (and rejected datagrams leave no state behind).
//! Real nodes in 7 receiver states (built by real handshakes); structured grid of datagrams,
//! truncations / length corruptions of genuine datagrams from the wrong party, random datagrams,
//! sequences with ticks; oracle: no unwind, observable state unchanged, nothing emitted, node still works.

use crate::engine::{hex, pick_idx, unhex, Ctx, Viol};
use crate::props::lab::{Lab, RState, ALL_STATES, P, Q, T};
use proptest::prelude::*;
use serde::{Deserialize, Serialize};
use serde_json::{json, Value};
use std::net::SocketAddr;

#[derive(Clone, Debug, Serialize, Deserialize, PartialEq)]
pub enum Src {
    /// the address the state is about (P for pending/established states, a stranger for Unknown)
    Natural,
    Stranger,
    /// P's address
    PeerP,
    /// the address of T's other healthy peer
    OtherPeer,
}

#[derive(Clone, Debug, Serialize, Deserialize, PartialEq)]
pub enum Inj {
    /// one datagram: (claimed source, bytes in hex)
    Datagram(Src, String),
    /// derived from genuine datagram kind k: keep `len` bytes, then set byte `pos` to `val` (pos = usize::MAX: no edit)
    Derived { src: Src, kind: u8, len: usize, pos: usize, val: u8 },
    Tick,
}

#[derive(Clone, Debug, Serialize, Deserialize)]
pub struct Case {
    pub state: RState,
    pub injections: Vec<Inj>,
    /// what the stale bytes of T's long-lived receive buffer look like behind each injected datagram (an outsider
    /// controls them: they are the remains of an earlier, longer datagram): 0 = 00 a5 a5.., 1 = ff ff ff.. (the
    /// handshake marker everywhere), 2 = all zero, 3 = 01 01 01..
    #[serde(default)]
    pub stale: u8,
    /// seconds of normal operation (housekeeping every second) between building the state and the first injection;
    /// capped so that the state stays what it is (pending handshakes keep retrying for 120 s, a lingering one for 60 s)
    #[serde(default)]
    pub age: u8,
}

pub fn stale_bytes(stale: u8) -> Vec<u8> {
    match stale % 4 {
        0 => std::iter::once(0u8).chain(std::iter::repeat(0xa5).take(700)).collect(),
        1 => vec![0xff; 701],
        2 => vec![0; 701],
        _ => vec![1; 701],
    }
}

fn src_addr(lab: &Lab, s: &Src) -> SocketAddr {
    match s {
        Src::Natural => lab.natural_source(),
        Src::Stranger => lab.stranger,
        Src::PeerP => lab.sim.addr(P),
        Src::OtherPeer => lab.sim.addr(Q),
    }
}

fn materialise(lab: &Lab, inj: &Inj) -> Option<(SocketAddr, Vec<u8>)> {
    match inj {
        Inj::Datagram(s, h) => Some((src_addr(lab, s), unhex(h))),
        Inj::Derived { src, kind, len, pos, val } => {
            let g = lab.genuine(*kind as usize);
            if g.is_empty() {
                return None;
            }
            let mut b = g[..(*len).min(g.len())].to_vec();
            if *pos != usize::MAX && !b.is_empty() {
                let p = pos % b.len();
                b[p] = *val;
            }
            Some((src_addr(lab, src), b))
        }
        Inj::Tick => None,
    }
}

/// The datagram as the node's parser sees it is `bytes` followed by the stale bytes of the receive buffer. It counts
/// as a verbatim genuine datagram when it equals one, or when it is a prefix of one and the stale bytes behind it
/// happen to be exactly the missing rest (a cut in front of trailing bytes that equal the stale pattern).
fn is_verbatim(lab: &Lab, bytes: &[u8], stale: &[u8]) -> bool {
    (0..crate::props::lab::KINDS).any(|k| {
        let g = lab.genuine(k);
        g == bytes || (!bytes.is_empty() && g.len() > bytes.len() && g.len() <= stale.len() && g[..bytes.len()] == *bytes && g[bytes.len()..] == stale[bytes.len()..g.len()])
    })
}

fn diff_kind(before: &str, after: &str) -> &'static str {
    let field = |s: &str, k: &str| -> String {
        let at = s.find(k).unwrap_or(0);
        let rest = &s[at..];
        let end = rest.find("] ").map(|e| e + 1).unwrap_or(rest.len());
        rest[..end].to_string()
    };
    if field(before, "peers=") != field(after, "peers=") {
        "peer-set-changed"
    } else if field(before, "expiry=") != field(after, "expiry=") {
        "peer-expiry-or-addresses-changed"
    } else if field(before, "pending=") != field(after, "pending=") {
        "pending-handshake-created-or-removed"
    } else if field(before, "claims=") != field(after, "claims=") || field(before, "cache=") != field(after, "cache=") {
        "routes-changed"
    } else if field(before, "own=") != field(after, "own=") {
        "own-addresses-changed"
    } else {
        "datagram-emitted"
    }
}

/// Runs a batch of injections against one lab; returns violations.
pub fn run_case(ctx: &Ctx, c: &Case) -> Vec<Viol> {
    let mut out = vec![];
    let mut lab = Lab::build(c.state);
    if !lab.sim.panics.is_empty() {
        out.push(Viol::new("lab-build-panic", format!("{:?}", lab.sim.panics[0]), json!({"kind": "inject", "case": c})));
        return out;
    }
    if c.age > 0 {
        lab.sim.run(c.age.min(40) as i64);
        lab.sim.take_iface(T);
    }
    let strict = c.state != RState::EstPlain;
    let mut had_verbatim = false;
    let scrub: Vec<u8> = stale_bytes(c.stale);
    for (idx, inj) in c.injections.iter().enumerate() {
        if let Inj::Tick = inj {
            lab.sim.tick();
            lab.sim.take_iface(T);
            if !lab.sim.panics.is_empty() {
                break;
            }
            continue;
        }
        let (src, bytes) = match materialise(&lab, inj) {
            Some(x) => x,
            None => continue,
        };
        if bytes.len() > 65435 {
            continue;
        }
        // verbatim genuine datagrams (replays, possibly of another exchange or from the wrong party) may change state
        // legitimately: they are injected for crash-freedom only and relax the closing check of the batch
        let verbatim = is_verbatim(&lab, &bytes, &scrub);
        if verbatim {
            had_verbatim = true;
            ctx.class("datagram:verbatim-genuine(crash-freedom-only)");
        }
        ctx.eval();
        // overwrite the stale bytes of T's receive buffer so that a prefix of a genuine datagram is not completed by them
        let stranger = lab.stranger;
        lab.sim.deliver_to(T, stranger, scrub.clone());
        let before = lab.observe();
        let one = if c.age == 0 && idx == 0 || !c.injections[..idx].iter().any(|i| matches!(i, Inj::Tick)) {
            json!({"kind": "inject", "case": {"state": c.state, "injections": [inj], "stale": c.stale, "age": c.age}})
        } else {
            json!({"kind": "inject", "case": {"state": c.state, "injections": &c.injections[..=idx], "stale": c.stale, "age": c.age}})
        };
        // "keeps running": a node event that never returns is reported by the hang watchdog with this case
        crate::engine::hang_guard_json("node-datagram", &one, || lab.sim.deliver_to(T, src, bytes.clone()));
        if let Some((_, p, ctxt)) = lab.sim.panics.first() {
            out.push(Viol::new(
                format!("node-{}", p.sig()),
                format!("state {:?}: a {}-byte datagram from {} made the node panic: {} at {} ({})", c.state, bytes.len(), src, p.msg, p.loc, ctxt),
                one,
            ));
            return out;
        }
        let wrote = lab.sim.take_iface(T);
        if strict && !had_verbatim {
            let after = lab.observe();
            if !wrote.is_empty() {
                out.push(Viol::new(
                    "outsider-datagram-reaches-interface",
                    format!("state {:?}: datagram {} from {} caused an interface write", c.state, hex(&bytes[..bytes.len().min(40)]), src),
                    one.clone(),
                ));
                return out;
            }
            if before != after {
                let k = diff_kind(&before, &after);
                out.push(Viol::new(
                    format!("rejected-datagram-leaves-state/{}", k),
                    format!(
                        "state {:?}: datagram #{} ({} bytes, first {}) from {} changed the node: {}\n  before: {}\n  after:  {}",
                        c.state, idx, bytes.len(), hex(&bytes[..bytes.len().min(24)]), src, k, before, after
                    ),
                    one,
                ));
                return out;
            }
        }
        // non-trivial: the datagram gets past the first dispatch
        let first = bytes.first().copied();
        let past = match first {
            None => false,
            Some(0xff) => bytes.len() >= 9,
            Some(_) => src == lab.sim.addr(P) && c.state != RState::Unknown || src == lab.sim.addr(Q),
        };
        if past {
            ctx.nontrivial(&(c.state, src, &bytes));
        }
        ctx.class(&format!("state:{:?}", c.state));
    }
    if let Some((_, p, ctxt)) = lab.sim.panics.first() {
        out.push(Viol::new(
            format!("node-{}", p.sig()),
            format!("state {:?}: node panicked during the sequence: {} at {} ({})", c.state, p.msg, p.loc, ctxt),
            json!({"kind": "inject", "case": c}),
        ));
        return out;
    }
    if strict && had_verbatim {
        if let Err(e) = lab.probe_q() {
            out.push(Viol::new(
                "node-impaired-after-replayed-datagrams",
                format!("state {:?}: after {} datagrams incl. verbatim replays from wrong parties: {}", c.state, c.injections.len(), e),
                json!({"kind": "inject", "case": c}),
            ));
        }
    } else if strict {
        if let Err(e) = lab.finish_and_probe() {
            out.push(Viol::new(
                "node-impaired-after-outsider-datagrams",
                format!("state {:?}: after {} outsider datagrams: {}", c.state, c.injections.len(), e),
                json!({"kind": "inject", "case": c}),
            ));
        }
    }
    out
}

fn body(class: usize, len: usize, seed: u64, genuine: &[u8]) -> Vec<u8> {
    match class {
        0 => vec![0u8; len],
        1 => vec![0xffu8; len],
        2 => {
            let mut x = seed | 1;
            (0..len)
                .map(|_| {
                    x ^= x << 13;
                    x ^= x >> 7;
                    x ^= x << 17;
                    (x >> 16) as u8
                })
                .collect()
        }
        _ => {
            let mut v = genuine[..len.min(genuine.len())].to_vec();
            v.resize(len, 0x33);
            v
        }
    }
}

/// the structured grid for one state, as one batch
fn grid_case(state: RState, src: Src, maxlen: usize) -> Case {
    let lab_kinds = 6;
    let firsts: Vec<Option<u8>> = vec![Some(0xff), Some(0), Some(1), Some(2), Some(3), Some(4), Some(5), Some(6), Some(7), Some(0x10), Some(0xfe), None];
    let mut injections = vec![];
    for len in 0..=maxlen {
        for (fi, first) in firsts.iter().enumerate() {
            for class in 0..4 {
                if class == 3 {
                    // prefix of a genuine datagram with the first byte replaced
                    let kind = if *first == Some(0xff) { (len % 3) as u8 } else { 3 + (len % 3) as u8 };
                    let _ = lab_kinds;
                    match first {
                        Some(f) => injections.push(Inj::Derived { src: src.clone(), kind, len, pos: 0, val: *f }),
                        None => injections.push(Inj::Derived { src: src.clone(), kind, len, pos: usize::MAX, val: 0 }),
                    }
                } else {
                    let mut b = body(class, len, (len * 131 + fi * 7 + class) as u64 + 1, &[]);
                    if let (Some(f), true) = (first, len > 0) {
                        b[0] = *f;
                    }
                    injections.push(Inj::Datagram(src.clone(), hex(&b)));
                }
            }
        }
    }
    Case { state, injections, stale: 0, age: 0 }
}

/// truncations and length-field corruptions of every genuine kind, from wrong parties
fn corruption_case(state: RState, src: Src, dense: bool) -> Case {
    let mut injections = vec![];
    for kind in 0..9u8 {
        for len in 0..420usize {
            if dense || len % 3 == 0 || len < 40 {
                injections.push(Inj::Derived { src: src.clone(), kind, len, pos: usize::MAX, val: 0 });
            }
        }
        // byte substitutions at every position of the first 64 bytes (covers all length/tag fields of the
        // handshake TLV header and the envelope header) and at strided later positions
        for pos in (0..64).chain((64..420).step_by(7)) {
            for val in [0u8, 1, 0x7f, 0x80, 0xff] {
                injections.push(Inj::Derived { src: src.clone(), kind, len: 100_000, pos, val });
            }
        }
    }
    Case { state, injections, stale: 0, age: 0 }
}

fn inj_strategy() -> impl Strategy<Value = Inj> {
    let src = || prop_oneof![3 => Just(Src::Natural), 1 => Just(Src::Stranger), 1 => Just(Src::PeerP), 1 => Just(Src::OtherPeer)];
    prop_oneof![
        2 => Just(Inj::Tick),
        4 => (src(), prop_oneof![Just(0xffu8), 0u8..8, any::<u8>()], proptest::collection::vec(any::<u8>(), 0..120)).prop_map(|(s, f, mut b)| {
            b.insert(0, f);
            Inj::Datagram(s, hex(&b))
        }),
        1 => (src(), proptest::collection::vec(any::<u8>(), 0..3000)).prop_map(|(s, b)| Inj::Datagram(s, hex(&b))),
        4 => (src(), 0u8..9, prop_oneof![0usize..420, Just(100_000usize)], prop_oneof![Just(usize::MAX), 0usize..420], any::<u8>()).prop_map(|(src, kind, len, pos, val)| Inj::Derived { src, kind, len, pos, val }),
    ]
}

pub fn run(ctx: &Ctx) {
    ctx.rule(
        "receiver states {unknown sender, pending as initiator, pending as responder, established with lingering \
         handshake, established without (initiator after 61 s / responder), established plain} each built by real \
         handshakes between real nodes; datagrams: grid of every length 0..=80 x first byte {0xff, key ids 0..7, \
         0x10, 0xfe, random} x body {zeros, ones, random, prefix of a genuine datagram} from the state's natural \
         source and from other sources; every truncation and byte substitutions (all header / length positions) of \
         genuine ping/pong/peng/data/node-info/rotation datagrams from wrong parties; random datagrams up to 65000 \
         bytes; proptest sequences of up to 50 datagrams with interleaved ticks. Oracle per datagram: no unwind, \
         peers / pending handshakes / routes / own addresses unchanged, nothing emitted, no interface write; at the \
         end of each batch the held genuine handshake completes and probe frames cross. Non-trivial = datagram \
         passes the first dispatch (handshake marker and >= 9 bytes, or source is a peer/pending address); distinct \
         = (state, source, bytes).",
    );
    ctx.assume("verbatim genuine datagrams are skipped here (replays belong to C03/C09); established-plain: only crash-freedom");
    ctx.assume("T's receive buffer is overwritten before each injection (with one of four outsider-chosen patterns) so that a prefix of a genuine message is not completed by stale bytes of that genuine message");

    // (1) grid per state and source
    let maxlen: usize = 80;
    let mut batches: Vec<Case> = vec![];
    for st in ALL_STATES {
        batches.push(grid_case(st, Src::Natural, maxlen));
        batches.push(grid_case(st, Src::OtherPeer, ctx.tier.pick(24, 80)));
        batches.push(grid_case(st, Src::Stranger, ctx.tier.pick(24, 80)));
        if st == RState::Unknown {
            batches.push(grid_case(st, Src::PeerP, ctx.tier.pick(24, 80)));
        }
        // the same after some seconds of normal operation: expiry times and counters have moved on since the last
        // authenticated message, so a datagram that refreshes anything without being verified shows up
        for (age, src) in [(3u8, Src::Natural), (35, Src::Natural), (3, Src::OtherPeer)] {
            let mut g = grid_case(st, src, ctx.tier.pick(26, 80));
            g.age = age;
            batches.push(g);
        }
        // short datagrams are the ones whose processing can run into the stale bytes behind them: other stale patterns
        for stale in 1..4u8 {
            for src in [Src::Natural, Src::OtherPeer, Src::Stranger] {
                let mut g = grid_case(st, src, ctx.tier.pick(12, 40));
                g.stale = stale;
                batches.push(g);
            }
        }
    }
    let mut n = 0u64;
    for b in &batches {
        n += b.injections.len() as u64;
    }
    // split the big batches so that all cores are used
    let mut split: Vec<Case> = vec![];
    for b in batches {
        for chunk in b.injections.chunks(400) {
            split.push(Case { state: b.state, injections: chunk.to_vec(), stale: b.stale, age: b.age });
        }
    }
    ctx.par_items(&split, |_, c| {
        let v = run_case(ctx, c);
        ctx.report(v);
    });
    ctx.subspace("grid: 7 states x sources x lengths 0..=80 x 12 first bytes x 4 body classes (+ lengths 0..=12 in front of 3 other kinds of stale buffer bytes; + lengths 0..=26 after 3 s / 35 s of normal operation)", n, true);
    ctx.sample("grid", || json!({"state": "EstNoLinger", "source": "address of established peer P", "datagram": "05 + 11 random bytes"}));

    // (2) truncations / corruptions of genuine datagrams from wrong parties
    let mut batches: Vec<Case> = vec![];
    for st in ALL_STATES {
        for (k, src) in [Src::Stranger, Src::OtherPeer, Src::Natural].into_iter().enumerate() {
            let mut c = corruption_case(st, src, !ctx.quick());
            c.stale = k as u8; // truncated genuine datagrams in front of three different kinds of stale bytes
            batches.push(c);
        }
    }
    let mut n2 = 0u64;
    let mut split: Vec<Case> = vec![];
    for b in batches {
        n2 += b.injections.len() as u64;
        for chunk in b.injections.chunks(400) {
            split.push(Case { state: b.state, injections: chunk.to_vec(), stale: b.stale, age: 0 });
        }
    }
    ctx.par_items(&split, |_, c| {
        let v = run_case(ctx, c);
        ctx.report(v);
    });
    ctx.subspace("truncations and byte substitutions of 6 kinds of genuine datagrams x 7 states x 3 sources", n2, true);

    // (2b) verbatim replays of genuine datagrams (of this or another exchange) from every party, repeated:
    // crash-freedom and survival of the healthy connection only
    let mut batches: Vec<Case> = vec![];
    for st in ALL_STATES {
        for src in [Src::Natural, Src::OtherPeer, Src::Stranger, Src::PeerP] {
            for kind in 0..9u8 {
                for reps in 1..=3usize {
                    let mut injections = vec![];
                    for r in 0..reps {
                        injections.push(Inj::Derived { src: src.clone(), kind, len: 100_000, pos: usize::MAX, val: 0 });
                        if r == 1 {
                            // a different genuine kind in between
                            injections.push(Inj::Derived { src: src.clone(), kind: (kind + 1) % 9, len: 100_000, pos: usize::MAX, val: 0 });
                        }
                    }
                    batches.push(Case { state: st, injections, stale: (kind as u8 + reps as u8) % 4, age: 0 });
                }
            }
        }
    }
    let nb = batches.len() as u64;
    ctx.par_items(&batches, |_, c| {
        let v = run_case(ctx, c);
        ctx.report(v);
    });
    ctx.subspace("verbatim replays: 7 states x 4 sources x 9 genuine kinds (incl. handshake messages of a foreign exchange) x 1..3 repetitions (crash-freedom, healthy peer unaffected)", nb, true);

    // (2c) handshake datagrams that fill the receive buffer to its very end (65435 bytes behind the 100 bytes of
    // head room): copied key selector of a genuine message, then parts laid out so that the parser runs out of
    // bytes at every possible point (tag, length, value, end marker, signature length, signature)
    let fill: Vec<(RState, usize)> = ALL_STATES.iter().flat_map(|s| (0..12usize).map(move |k| (*s, k))).collect();
    ctx.par_items(&fill, |_, (st, k)| {
        let lab = Lab::build(*st);
        let g = lab.genuine(0).clone();
        if g.len() < 20 {
            return;
        }
        let total = 65435usize;
        let mut d = vec![0u8; total];
        d[..9].copy_from_slice(&g[..9]); // marker + salt + key hash of a trusted key
        // one big unknown part that ends `tail` bytes before the end of the buffer
        let tail = [0usize, 1, 2, 3, 4, 5, 10, 64, 65, 66, 67, 100][*k];
        let mut pos = 9;
        while total - pos > 65535 + 3 + tail {
            d[pos] = 0x77;
            d[pos + 1] = 0xff;
            d[pos + 2] = 0xff;
            pos += 3 + 65535;
        }
        let rest = total - pos;
        if rest >= 3 + tail {
            let len = rest - 3 - tail;
            d[pos] = 0x77;
            d[pos + 1] = (len >> 8) as u8;
            d[pos + 2] = len as u8;
            pos += 3 + len;
        }
        // what remains: end marker, signature length 64, signature bytes as far as they fit
        for (i, b) in d[pos..].iter_mut().enumerate() {
            *b = if i == 0 { 0 } else if i == 1 { 64 } else { 0x5a };
        }
        drop(lab);
        let v = run_case(ctx, &Case { state: *st, injections: vec![Inj::Datagram(Src::Natural, hex(&d)), Inj::Datagram(Src::Stranger, hex(&d))], stale: 0, age: 0 });
        ctx.report(v);
    });
    ctx.subspace("buffer-filling handshake datagrams (65435 bytes, copied key selector, parser runs dry at 12 different points) x 7 states", fill.len() as u64 * 2, true);

    // (3) large random datagrams
    let big: Vec<(RState, usize)> = ALL_STATES.iter().flat_map(|s| [300usize, 1500, 9000, 65000].into_iter().map(move |l| (*s, l))).collect();
    ctx.par_items(&big, |w, (st, len)| {
        let mut rng = ctx.rng("big", w);
        let mut injections = vec![];
        for k in 0..6 {
            let mut b = vec![0u8; *len];
            rng.fill_bytes(&mut b);
            b[0] = [0xff, 0, 1, 2, 3, 0x80][k];
            injections.push(Inj::Datagram(Src::Natural, hex(&b)));
        }
        let v = run_case(ctx, &Case { state: *st, injections, stale: (*len % 4) as u8, age: 0 });
        ctx.report(v);
    });
    ctx.subspace("random datagrams of 300 / 1500 / 9000 / 65000 bytes x 6 first bytes x 7 states", big.len() as u64 * 6, false);

    // (4) proptest sequences with ticks
    let nseq: u32 = ctx.tier.pick(300, 5_000);
    ctx.proptest("pt-seq", nseq, || (any::<u16>(), proptest::collection::vec(inj_strategy(), 1..50), 0u8..4, prop_oneof![Just(0u8), 0u8..40]), |(s, injections, stale, age)| {
        let c = Case { state: ALL_STATES[pick_idx(*s, ALL_STATES.len())], injections: injections.clone(), stale: *stale, age: *age };
        let v = run_case(ctx, &c);
        if injections.len() < 6 {
            ctx.sample("sequence", || serde_json::to_value(&c).unwrap());
        }
        v
    });
    ctx.subspace("proptest: sequences of up to 50 datagrams with interleaved ticks", nseq as u64, false);

    if std::env::var("VCHECK_FUZZ").is_ok() && !ctx.quick() {
        crate::fuzzdrv::run_campaign_par(ctx, "node_datagrams", 48_000, 16, 4096);
    }
}

pub fn replay(ctx: &Ctx, case: &Value) {
    if crate::fuzzdrv::replay(ctx, case) {
        return;
    }
    if let Ok(c) = serde_json::from_value::<Case>(case["case"].clone()) {
        for _ in 0..4 {
            let v = run_case(ctx, &c);
            ctx.report(v);
        }
    }
}
