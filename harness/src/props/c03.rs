//! C03 - replay window: a captured datagram dies within two housekeeping ticks.
//! Oracle: a threshold computed from the recorded history only (exact in both directions).

use crate::engine::{Ctx, Viol};
use crate::sim::{catch, new_buf};
use proptest::prelude::*;
use ring::aead::{self, LessSafeKey, UnboundKey};
use serde::{Deserialize, Serialize};
use serde_json::{json, Value};
use vpncloud::crypto::verif::{create_dummy_pair, CryptoCore};

#[derive(Clone, Copy, Debug, Serialize, Deserialize, PartialEq, Eq, Hash)]
pub enum Op {
    /// seal the next datagram (stored as number k in seal order)
    Seal,
    /// deliver stored datagram number k (again)
    Deliver(u8),
    /// housekeeping tick at the receiver
    Tick,
    /// datagram carrying the header of stored datagram k with its counter raised by 1000 and a garbage tag
    Forge(u8),
    /// install a fresh key generation in both ends (rotation)
    Rotate,
}

#[derive(Clone, Debug, Serialize, Deserialize)]
pub struct Case {
    pub cipher: u8,
    pub ops: Vec<Op>,
}

pub fn algo(c: u8) -> &'static aead::Algorithm {
    match c % 3 {
        0 => &aead::AES_128_GCM,
        1 => &aead::AES_256_GCM,
        _ => &aead::CHACHA20_POLY1305,
    }
}

struct Stored {
    wire: Vec<u8>,
    generation: u64,
    payload: Vec<u8>,
}

/// the reference: everything it knows comes from the recorded history
#[derive(Default)]
struct WindowRef {
    ticks: u64,
    /// per key generation: (datagram number, tick count at acceptance)
    accepted: Vec<(u64, usize, u64)>,
}

impl WindowRef {
    fn threshold(&self, generation: u64) -> Option<usize> {
        // max datagram number of that generation accepted before the tick preceding the most recent tick
        if self.ticks < 2 {
            return None;
        }
        self.accepted.iter().filter(|(g, _, t)| *g == generation && *t + 2 <= self.ticks).map(|(_, k, _)| *k).max()
    }
}

pub fn run_case(ctx: &Ctx, c: &Case) -> Vec<Viol> {
    ctx.eval();
    let cj = || json!({"kind": "window", "case": c});
    let al = algo(c.cipher);
    let (mut sender, mut receiver): (CryptoCore, CryptoCore) = create_dummy_pair(al);
    let mut stored: Vec<Stored> = vec![];
    let mut model = WindowRef::default();
    let mut generation: u64 = 0; // generation g lives in slot g % 4
    let mut out = vec![];
    let mut redelivered_after_tick = false;
    for (si, op) in c.ops.iter().enumerate() {
        match *op {
            Op::Seal => {
                if stored.len() >= 250 {
                    continue;
                }
                let payload: Vec<u8> = (0..(stored.len() % 7 + 1)).map(|i| (i * 31 + stored.len()) as u8).collect();
                let mut buf = new_buf();
                buf.set_length(payload.len());
                buf.message_mut().copy_from_slice(&payload);
                sender.encrypt(&mut buf);
                stored.push(Stored { wire: buf.message().to_vec(), generation, payload });
            }
            Op::Tick => {
                receiver.every_second();
                model.ticks += 1;
            }
            Op::Rotate => {
                generation += 1;
                let mut kd = vec![0u8; al.key_len()];
                for (i, b) in kd.iter_mut().enumerate() {
                    *b = (generation as u8).wrapping_mul(37).wrapping_add(i as u8);
                }
                sender.rotate_key(LessSafeKey::new(UnboundKey::new(al, &kd).unwrap()), generation, true);
                receiver.rotate_key(LessSafeKey::new(UnboundKey::new(al, &kd).unwrap()), generation, false);
            }
            Op::Deliver(k) | Op::Forge(k) => {
                let k = k as usize;
                if k >= stored.len() {
                    continue;
                }
                let forge = matches!(op, Op::Forge(_));
                let s = &stored[k];
                let mut wire = s.wire.clone();
                if forge {
                    // raise the counter (bytes 1..8) by 1000, keep the key id, garbage tag
                    let mut ctr = [0u8; 8];
                    ctr[1..].copy_from_slice(&wire[1..8]);
                    let v = u64::from_be_bytes(ctr).wrapping_add(1000) & 0x00ff_ffff_ffff_ffff;
                    wire[1..8].copy_from_slice(&v.to_be_bytes()[1..]);
                    let n = wire.len();
                    wire[n - 1] ^= 0x5a;
                }
                let mut buf = new_buf();
                buf.set_length(wire.len());
                buf.message_mut().copy_from_slice(&wire);
                let res = match catch(|| receiver.decrypt(&mut buf)) {
                    Ok(r) => r,
                    Err(p) => {
                        out.push(Viol::new(format!("decrypt-{}", p.sig()), format!("decrypt panicked: {}", p.msg), cj()));
                        return out;
                    }
                };
                if forge {
                    if res.is_ok() {
                        out.push(Viol::new("forged-datagram-accepted", format!("step {}: datagram with garbage tag accepted", si), cj()));
                        return out;
                    }
                    continue;
                }
                // decryptable at all? the slot must still hold that generation
                let slot_current = s.generation + 4 > generation;
                let thr = model.threshold(s.generation);
                let expect = slot_current && thr.map(|m| k > m).unwrap_or(true);
                if model.ticks >= 1 && model.accepted.iter().any(|(_, kk, _)| *kk == k) {
                    redelivered_after_tick = true;
                }
                if res.is_ok() != expect {
                    let sig = if res.is_ok() { "replay-accepted-outside-window" } else { "fresh-or-in-window-datagram-rejected" };
                    out.push(Viol::new(
                        sig,
                        format!(
                            "step {}: datagram #{} (key generation {}) {} but the history says {} (ticks so far {}, newest accepted before the tick preceding the most recent tick: {:?})",
                            si,
                            k,
                            s.generation,
                            if res.is_ok() { "accepted" } else { "rejected" },
                            if expect { "accept" } else { "reject" },
                            model.ticks,
                            thr
                        ),
                        cj(),
                    ));
                    return out;
                }
                if res.is_ok() {
                    if buf.message() != &s.payload[..] {
                        out.push(Viol::new("payload-corrupted", format!("step {}: accepted datagram #{} opened to other bytes", si, k), cj()));
                        return out;
                    }
                    model.accepted.push((s.generation, k, model.ticks));
                }
            }
        }
    }
    if model.ticks >= 2 && redelivered_after_tick {
        ctx.nontrivial(&(c.cipher, &c.ops));
    }
    out
}

/// The same histories against a real, freshly handshaken PeerCrypto pair, ticked through
/// PeerCrypto::every_second; the receiver is the handshake initiator (its handshake object lingers for 60 s)
/// or the responder.
pub fn run_pc_case(ctx: &Ctx, receiver_is_initiator: bool, ops: &[Op]) -> Vec<Viol> {
    ctx.eval();
    let cj = || json!({"kind": "window-pc", "receiver_is_initiator": receiver_is_initiator, "ops": ops});
    let mut out = vec![];
    let r = catch(|| {
        let mut sim = crate::sim::PairSim::simple(None);
        let recv = 0usize;
        sim.init(if receiver_is_initiator { 0 } else { 1 });
        sim.settle();
        if !sim.both_ready() {
            return Some(Viol::new("window-pc-setup", "handshake failed".to_string(), cj()));
        }
        let mut stored: Vec<(Vec<u8>, Vec<u8>)> = vec![];
        let mut model = WindowRef::default();
        for (si, op) in ops.iter().enumerate() {
            match *op {
                Op::Seal => {
                    if let Ok(x) = sim.seal_probe(1 - recv) {
                        stored.push(x);
                    }
                }
                Op::Tick => {
                    sim.tick(recv);
                    sim.inflight.clear(); // rotation is not part of these histories
                    model.ticks += 1;
                }
                Op::Deliver(k) => {
                    let k = k as usize;
                    if k >= stored.len() {
                        continue;
                    }
                    let n = sim.events.len();
                    let res = sim.feed(recv, &stored[k].0.clone());
                    sim.events.truncate(n);
                    let thr = model.threshold(0);
                    let expect = thr.map(|m| k > m).unwrap_or(true);
                    let ok = matches!(res, Ok("message"));
                    if ok != expect {
                        return Some(Viol::new(
                            if ok { "replay-accepted-outside-window" } else { "fresh-or-in-window-datagram-rejected" },
                            format!(
                                "PeerCrypto level (receiver is the {}), step {}: datagram #{} {} but the history says {} (ticks {}, threshold {:?})",
                                if receiver_is_initiator { "handshake initiator" } else { "responder" },
                                si, k, if ok { "accepted" } else { "rejected" }, if expect { "accept" } else { "reject" }, model.ticks, thr
                            ),
                            cj(),
                        ));
                    }
                    if ok {
                        model.accepted.push((0, k, model.ticks));
                    }
                }
                _ => {}
            }
        }
        None
    });
    match r {
        Err(p) => out.push(Viol::new(format!("window-pc-{}", p.sig()), p.msg, cj())),
        Ok(Some(v)) => out.push(v),
        Ok(None) => {
            if ops.iter().filter(|o| **o == Op::Tick).count() >= 2 {
                ctx.nontrivial(&("pc", receiver_is_initiator, ops));
            }
        }
    }
    out
}

const ALPHABET: [Op; 9] = [Op::Seal, Op::Tick, Op::Deliver(0), Op::Deliver(1), Op::Deliver(2), Op::Deliver(3), Op::Deliver(4), Op::Forge(0), Op::Rotate];

fn op_strategy() -> impl Strategy<Value = Op> {
    prop_oneof![
        4 => Just(Op::Seal),
        3 => Just(Op::Tick),
        8 => any::<u8>().prop_map(Op::Deliver),
        1 => any::<u8>().prop_map(Op::Forge),
        1 => Just(Op::Rotate),
    ]
}

pub fn run(ctx: &Ctx) {
    ctx.rule(
        "histories over {seal next, deliver stored datagram k (again), tick, forge (counter+1000, garbage tag), \
         rotate key} executed on a real CryptoCore pair; every delivery verdict is compared with the threshold \
         computed from the recorded history only. Exhaustive: all sequences of a tier length over a 9-symbol \
         alphabet (5 datagrams) - every prefix is checked, so shorter histories are included; proptest histories to \
         length 400 over up to 250 datagrams; all three ciphers. Node level: re-injection of captured data \
         datagrams k = 0..5 housekeeping rounds after first delivery. Non-trivial = >= 2 ticks and a re-delivery \
         after a tick; distinct = (cipher, op string).",
    );
    ctx.assume("counter order equals seal order (no 2^56 wrap inside a history; C04 covers the limit)");
    let depth: usize = ctx.tier.pick(9, 11);
    // canonical sequences only (an op never refers to a datagram that does not exist yet), enumerated by DFS;
    // work is split on the canonical prefixes of length 4
    fn extend(prefix: &mut Vec<Op>, sealed: u8, depth: usize, f: &mut dyn FnMut(&[Op])) {
        if prefix.len() == depth {
            f(prefix);
            return;
        }
        for op in ALPHABET {
            let mut s2 = sealed;
            match op {
                Op::Seal => {
                    if sealed >= 5 {
                        continue;
                    }
                    s2 += 1
                }
                Op::Deliver(k) | Op::Forge(k) => {
                    if k >= sealed {
                        continue;
                    }
                }
                _ => {}
            }
            prefix.push(op);
            extend(prefix, s2, depth, f);
            prefix.pop();
        }
    }
    let mut prefixes: Vec<Vec<Op>> = vec![];
    extend(&mut vec![], 0, 4, &mut |p| prefixes.push(p.to_vec()));
    for cipher in 0..3u8 {
        let d = if cipher == 0 { depth } else { depth - 2 };
        let count = std::sync::atomic::AtomicU64::new(0);
        ctx.par_items(&prefixes, |_, pre| {
            let sealed = pre.iter().filter(|o| **o == Op::Seal).count() as u8;
            let mut p = pre.clone();
            let mut n = 0u64;
            extend(&mut p, sealed, d, &mut |ops| {
                n += 1;
                let v = run_case(ctx, &Case { cipher, ops: ops.to_vec() });
                ctx.report(v);
            });
            count.fetch_add(n, std::sync::atomic::Ordering::Relaxed);
        });
        ctx.subspace(
            &format!("cipher {}: all canonical sequences of length {} over 9 symbols / 5 datagrams (every prefix checked)", cipher, d),
            count.load(std::sync::atomic::Ordering::Relaxed),
            true,
        );
    }
    let n: u32 = ctx.tier.pick(12_000, 120_000);
    ctx.proptest("pt-window", n, || (0u8..3, proptest::collection::vec(op_strategy(), 0..400)), |(cipher, ops)| {
        // map delivery indices monotonically onto what has been sealed so far
        let mut sealed = 0usize;
        let mapped: Vec<Op> = ops
            .iter()
            .map(|op| match *op {
                Op::Seal => {
                    sealed += 1;
                    Op::Seal
                }
                Op::Deliver(x) if sealed > 0 => {
                    // bias towards recent datagrams
                    let span = sealed.min(6);
                    Op::Deliver((sealed - 1 - (x as usize * span >> 8)) as u8)
                }
                Op::Forge(x) if sealed > 0 => Op::Forge((x as usize * sealed >> 8) as u8),
                o => o,
            })
            .collect();
        let c = Case { cipher: *cipher, ops: mapped };
        let v = run_case(ctx, &c);
        if c.ops.len() > 6 && c.ops.len() < 16 {
            ctx.sample("history", || serde_json::to_value(&c).unwrap());
        }
        v
    });
    ctx.subspace("proptest histories up to length 400, recent-biased re-deliveries, rotations", n as u64, false);
    // PeerCrypto level: all canonical histories of length 6 over {seal, tick, deliver 0..2}, both receiver roles
    let mut hist: Vec<Vec<Op>> = vec![];
    fn ext(p: &mut Vec<Op>, sealed: u8, depth: usize, out: &mut Vec<Vec<Op>>) {
        if p.len() == depth {
            out.push(p.clone());
            return;
        }
        for op in [Op::Seal, Op::Tick, Op::Deliver(0), Op::Deliver(1), Op::Deliver(2)] {
            let mut s2 = sealed;
            match op {
                Op::Seal => {
                    if sealed >= 3 {
                        continue;
                    }
                    s2 += 1;
                }
                Op::Deliver(k) => {
                    if k >= sealed {
                        continue;
                    }
                }
                _ => {}
            }
            p.push(op);
            ext(p, s2, depth, out);
            p.pop();
        }
    }
    let pc_depth: usize = ctx.tier.pick(6, 8);
    ext(&mut vec![], 0, pc_depth, &mut hist);
    let nh = hist.len() as u64;
    ctx.par_items(&hist, |_, ops| {
        for role in [false, true] {
            let v = run_pc_case(ctx, role, ops);
            ctx.report(v);
        }
    });
    ctx.subspace(&format!("PeerCrypto level: all canonical histories of length {} over {{seal, tick, deliver 0..2}} x receiver role", pc_depth), nh * 2, true);

    crate::props::node_level::c03_node(ctx);

    // coverage-guided search over the same histories (libFuzzer target hist_c03: bytes -> operations -> this oracle);
    // the committed corpus is replayed in-process in every tier, the campaign runs in the thorough tier
    crate::targets::replay_corpus(ctx, "hist_c03");
    if std::env::var("VCHECK_FUZZ").is_ok() && !ctx.quick() {
        crate::fuzzdrv::run_campaign_par(ctx, "hist_c03", 1600000, 16, 128);
    }
}

pub fn replay(ctx: &Ctx, case: &Value) {
    if crate::fuzzdrv::replay(ctx, case) {
        return;
    }
    match case["kind"].as_str() {
        Some("window-pc") => {
            if let Ok(ops) = serde_json::from_value::<Vec<Op>>(case["ops"].clone()) {
                let v = run_pc_case(ctx, case["receiver_is_initiator"].as_bool().unwrap_or(false), &ops);
                ctx.report(v);
            }
        }
        Some("window") => {
            if let Ok(c) = serde_json::from_value::<Case>(case["case"].clone()) {
                let v = run_case(ctx, &c);
                ctx.report(v);
            }
        }
        Some(_) => crate::props::node_level::replay(ctx, case),
        None => {}
    }
}
