//! C10 - forwarding isolation: no relaying, exact once-only delivery.
//! Meshes of real nodes in router / switch / hub mode; per interface read a conservation check
//! against RouteRef: wire datagrams = selected peers, received payload causes no datagram,
//! interface writes = deliveries, byte-identical.

use crate::engine::{Ctx, Viol};
use crate::props::c11::ref_matches;
use crate::sim::{base_config, eth_frame, ipv4_packet, NetSim};
use proptest::prelude::*;
use serde::{Deserialize, Serialize};
use serde_json::{json, Value};
use std::collections::{BTreeMap, BTreeSet};
use vpncloud::payload::{Frame, Packet, Protocol};
use vpncloud::types::{Mode, Range};

#[derive(Clone, Copy, Debug, Serialize, Deserialize, PartialEq, Eq, Hash)]
pub enum Dst {
    /// an address claimed / used by node k
    Node(u8),
    Unknown,
    Broadcast,
    /// an address of the reading node itself
    Own,
    /// a host that moves between nodes (its frames are read at whichever node the op names): host index 3 or 4
    Roaming(u8),
}

#[derive(Clone, Copy, Debug, Serialize, Deserialize, PartialEq, Eq, Hash)]
pub enum Op {
    /// frame read from the interface of node `at`, source host `host` (0..3) behind that node
    Read { at: u8, dst: Dst, host: u8 },
    /// arbitrary datagram from a non-peer address delivered to node `at`
    Outsider { at: u8, kind: u8 },
}

#[derive(Clone, Copy, Debug, Serialize, Deserialize, PartialEq, Eq, Hash)]
pub enum MeshMode {
    Router,
    Switch,
    Hub,
}

#[derive(Clone, Debug, Serialize, Deserialize)]
pub struct Case {
    pub mode: MeshMode,
    pub nodes: u8,
    pub ops: Vec<Op>,
    /// router mode: the last node additionally claims the default route 0.0.0.0/0
    #[serde(default)]
    pub default_route: bool,
    /// bit i: node i enables the unencrypted transport besides AES128 (pairs of such nodes negotiate plain,
    /// every other pair a cipher - a mesh with both kinds of connection)
    #[serde(default)]
    pub plain_mask: u8,
}

fn mac(node: u8, host: u8) -> [u8; 6] {
    [0x02, 0x10, 0, 0, node, host]
}

fn ip(node: u8, host: u8) -> [u8; 4] {
    [10, node + 1, 0, host + 1]
}

/// per-node view of where addresses live (learning), for switch mode
type Learned = BTreeMap<Vec<u8>, usize>;

fn run_generic<P: Protocol>(ctx: &Ctx, c: &Case) -> Vec<Viol> {
    let cj = || json!({"kind": "forward", "case": c});
    let mut out = vec![];
    let n = c.nodes.clamp(2, 5) as usize;
    let mut sim: NetSim<P> = NetSim::new();
    for i in 0..n {
        let mut cfg = base_config();
        cfg.auto_claim = false;
        match c.mode {
            MeshMode::Router => {
                cfg.mode = Mode::Router;
                cfg.claims = vec![format!("10.{}.0.0/16", i + 1)];
                if c.default_route && i == n - 1 {
                    cfg.claims.push("0.0.0.0/0".to_string());
                }
            }
            MeshMode::Switch => cfg.mode = Mode::Switch,
            MeshMode::Hub => cfg.mode = Mode::Hub,
        }
        if c.plain_mask & (1 << i) != 0 {
            cfg.crypto.algorithms = vec!["plain".to_string(), "aes128".to_string()];
        }
        sim.add_node(&cfg, false);
    }
    for i in 0..n {
        for j in (i + 1)..n {
            let a = sim.addr(j);
            sim.connect(i, a);
        }
    }
    sim.settle();
    sim.run(2);
    if !sim.all_connected() {
        out.push(Viol::new("c10-setup", "mesh not fully connected".to_string(), cj()));
        return out;
    }
    sim.record = true;
    let mut learned: Vec<Learned> = vec![BTreeMap::new(); n];
    let mut had_unicast = false;
    let mut had_flood = false;
    let mut seq = 0u32;
    for (si, op) in c.ops.iter().enumerate() {
        for x in 0..n {
            sim.take_iface(x);
        }
        match *op {
            Op::Read { at, dst, host } => {
                let at = at as usize % n;
                seq += 1;
                let body = format!("frame#{}-{}", si, seq);
                // build the frame / packet and the reference's view of source and destination
                let (bytes, src_key, dst_key, dst_owner): (Vec<u8>, Vec<u8>, Vec<u8>, Option<usize>) = match c.mode {
                    MeshMode::Router => {
                        let s = ip(at as u8, host % 5);
                        let (d, owner) = match dst {
                            Dst::Node(k) => {
                                let k = k as usize % n;
                                (ip(k as u8, 1), Some(k))
                            }
                            Dst::Unknown | Dst::Roaming(_) => ([10, 200, 0, 1], None),
                            Dst::Broadcast => ([255, 255, 255, 255], None),
                            Dst::Own => (ip(at as u8, 2), Some(at)),
                        };
                        (ipv4_packet(s, d, body.as_bytes()), s.to_vec(), d.to_vec(), owner)
                    }
                    _ => {
                        // hosts 3 and 4 roam: the same source address shows up behind different nodes over time
                        let s = if host % 5 >= 3 { mac(0x77, host % 5) } else { mac(at as u8, host % 5) };
                        let (d, owner) = match dst {
                            Dst::Roaming(h) => (mac(0x77, 3 + h % 2), None),
                            Dst::Node(k) => {
                                let k = k as usize % n;
                                (mac(k as u8, 1), Some(k))
                            }
                            Dst::Unknown => ([0x02, 0x99, 0, 0, 0, 1], None),
                            Dst::Broadcast => ([0xff; 6], None),
                            Dst::Own => (mac(at as u8, 2), Some(at)),
                        };
                        // host / 5 selects an 802.1Q tag: none, VLAN 0x67, VLAN 0x67 with priority bits, priority tag (VLAN 0)
                        let tci: Option<u16> = [None, Some(0x0067), Some(0xa067), Some(0x6000)][(host / 5 % 4) as usize];
                        let vid = tci.map(|t| t & 0x0fff).unwrap_or(0);
                        let key = |m: [u8; 6]| {
                            let mut k = if vid != 0 { vec![(vid >> 8) as u8, vid as u8] } else { vec![] };
                            k.extend_from_slice(&m);
                            k
                        };
                        (eth_frame(d, s, tci, body.as_bytes()), key(s), key(d), owner)
                    }
                };
                // reference: who is selected?
                let all_peers: BTreeSet<usize> = (0..n).filter(|x| *x != at).collect();
                let selected: BTreeSet<usize> = match c.mode {
                    MeshMode::Router => match dst_owner {
                        Some(k) if k != at => {
                            let r: Range = format!("10.{}.0.0/16", k + 1).parse().unwrap();
                            assert!(ref_matches(&r.base.data[..4], 16, &dst_key));
                            [k].into_iter().collect()
                        }
                        // own range and unknown destinations: nobody claims them at this node - unless a peer
                        // announced the default route
                        _ => {
                            if c.default_route && at != n - 1 {
                                [n - 1].into_iter().collect()
                            } else {
                                BTreeSet::new()
                            }
                        }
                    },
                    MeshMode::Switch => match learned[at].get(&dst_key) {
                        Some(p) => [*p].into_iter().collect(),
                        None => all_peers.clone(),
                    },
                    MeshMode::Hub => all_peers.clone(),
                };
                let before = sim.wire_log.len();
                sim.put_payload(at, bytes.clone());
                let caused: Vec<(usize, Vec<u8>)> = sim.wire_log[before..].iter().map(|d| (sim.index.get(&d.dst).copied().unwrap_or(99), d.data.clone())).collect();
                // (sealed datagrams are all different; over the unencrypted transport a flooded frame is the same bytes for every peer)
                if c.plain_mask == 0 && caused.iter().any(|(_, d)| sim.wire_log[before..].iter().filter(|x| x.data == *d).count() > 1) {
                    out.push(Viol::new("same-datagram-sent-twice", format!("step {}: identical datagram emitted twice", si), cj()));
                }
                let got_dsts: Vec<usize> = caused.iter().map(|(d, _)| *d).collect();
                let got_set: BTreeSet<usize> = got_dsts.iter().copied().collect();
                if got_dsts.len() != got_set.len() || got_set != selected {
                    out.push(Viol::new(
                        format!("wrong-recipient-set/{:?}", c.mode),
                        format!("step {} {:?}: interface read at node {} caused datagrams to {:?}, the reference selects {:?}", si, op, at, got_dsts, selected),
                        cj(),
                    ));
                    return out;
                }
                let mid = sim.wire_log.len();
                sim.settle();
                // received payload must not cause any datagram
                if sim.wire_log.len() != mid {
                    let extra: Vec<String> = sim.wire_log[mid..].iter().map(|d| format!("{}->{} ({} bytes)", d.src, d.dst, d.data.len())).collect();
                    out.push(Viol::new(
                        "payload-relayed-or-answered",
                        format!("step {} {:?}: delivering the payload made nodes emit datagrams: {:?}", si, op, extra),
                        cj(),
                    ));
                    return out;
                }
                for x in 0..n {
                    let w = sim.take_iface(x);
                    let want: Vec<Vec<u8>> = if selected.contains(&x) { vec![bytes.clone()] } else { vec![] };
                    if w != want {
                        out.push(Viol::new(
                            "interface-writes-differ-from-deliveries",
                            format!("step {} {:?}: node {} wrote {} frames to its interface (expected {}, byte-identical: {})", si, op, x, w.len(), want.len(), w.first() == want.first()),
                            cj(),
                        ));
                        return out;
                    }
                    // learning model: receiver learns the source behind `at`
                    if selected.contains(&x) && c.mode == MeshMode::Switch {
                        learned[x].insert(src_key.clone(), at);
                    }
                }
                if selected.len() == 1 {
                    had_unicast = true;
                }
                if selected.len() >= 2 || (n == 2 && selected.len() == 1 && dst_owner.is_none()) {
                    had_flood = true;
                }
                ctx.class(&format!("{:?}:selected={}", c.mode, selected.len().min(3)));
            }
            Op::Outsider { at, kind } => {
                let at = at as usize % n;
                let mut stranger: std::net::SocketAddr = "[fd00::bad]:999".parse().unwrap();
                if kind % 8 >= 4 {
                    // the node is in the middle of a handshake with the sender's address (it dialled it and got no
                    // answer yet): what arrives from there is still not from an established peer
                    stranger = format!("[fd00::dead:{:x}]:999", at + 1).parse().unwrap();
                    sim.connect(at, stranger);
                }
                let bytes: Vec<u8> = match kind % 8 {
                    0 => vec![0u8; 60],
                    1 | 5 => {
                        // replay of an earlier data datagram, from a non-peer address
                        match sim.wire_log.iter().rev().find(|d| d.data.len() > 40 && d.data.first() != Some(&0xff) && sim.index.get(&d.dst) == Some(&at)) {
                            Some(d) => d.data.clone(),
                            None => vec![1u8; 80],
                        }
                    }
                    2 | 4 => {
                        // a bare frame / packet as datagram (message type 0 = payload, no envelope)
                        let mut v = vec![0u8];
                        if c.mode == MeshMode::Router {
                            v.extend_from_slice(&ipv4_packet([10, 77, 0, 1], ip(at as u8, 1), b"outsider"));
                        } else {
                            v.extend_from_slice(&eth_frame(mac(at as u8, 1), [2, 0x66, 0, 0, 0, 1], None, b"outsider"));
                        }
                        v
                    }
                    6 => {
                        // bare node information claiming the node's own range and a default route
                        let mut buf = crate::sim::new_buf();
                        vpncloud::messages::NodeInfo {
                            node_id: [7; 16],
                            peers: Default::default(),
                            claims: ["0.0.0.0/0", "10.0.0.0/8"].iter().map(|r| r.parse().unwrap()).collect(),
                            peer_timeout: Some(300),
                            addrs: Default::default(),
                        }
                        .encode(&mut buf);
                        let mut v = vec![1u8];
                        v.extend_from_slice(buf.message());
                        v
                    }
                    7 => vec![2u8],
                    _ => (0..90u8).map(|i| i.wrapping_mul(37)).collect(),
                };
                let mid = sim.wire_log.len();
                sim.deliver_to(at, stranger, bytes);
                sim.settle();
                if sim.wire_log.len() != mid {
                    out.push(Viol::new("non-peer-datagram-answered", format!("step {}: datagram from a non-peer made node {} emit datagrams", si, at), cj()));
                }
                for x in 0..n {
                    if !sim.take_iface(x).is_empty() {
                        out.push(Viol::new("non-peer-datagram-reaches-interface", format!("step {}: datagram from a non-peer address caused an interface write at node {}", si, x), cj()));
                        return out;
                    }
                }
            }
        }
        if let Some((i, p, ctxt)) = sim.panics.first() {
            out.push(Viol::new(format!("node-{}", p.sig()), format!("step {}: node {} panicked: {} ({})", si, i, p.msg, ctxt), cj()));
            return out;
        }
    }
    if had_unicast && had_flood {
        ctx.nontrivial(&format!("{:?}", c));
    } else if had_unicast || had_flood || c.mode == MeshMode::Router {
        // router mode never floods: unicast + drop counts
        if c.mode == MeshMode::Router && had_unicast {
            ctx.nontrivial(&format!("{:?}", c));
        }
    }
    out
}

pub fn run_case(ctx: &Ctx, c: &Case) -> Vec<Viol> {
    ctx.eval();
    match c.mode {
        MeshMode::Router => run_generic::<Packet>(ctx, c),
        _ => run_generic::<Frame>(ctx, c),
    }
}

fn op_strategy() -> impl Strategy<Value = Op> {
    prop_oneof![
        10 => (0u8..5, prop_oneof![4 => (0u8..5).prop_map(Dst::Node), 2 => Just(Dst::Unknown), 1 => Just(Dst::Broadcast), 1 => Just(Dst::Own), 3 => (0u8..2).prop_map(Dst::Roaming)], prop_oneof![3 => 0u8..5, 2 => 0u8..20]).prop_map(|(at, dst, host)| Op::Read { at, dst, host }),
        1 => (0u8..5, 0u8..8).prop_map(|(at, kind)| Op::Outsider { at, kind }),
    ]
}

pub fn run(ctx: &Ctx) {
    ctx.rule(
        "meshes of 2-5 real nodes in router (IP dissector, claims), switch and hub mode (Ethernet dissector); \
         sequences of interface reads (destination: address of node k / unknown / broadcast / own) at any node and \
         datagrams from non-peer addresses; after every step: datagrams caused by the read go to exactly the peers \
         the reference selects (0 when dropped, 1 unicast, all peers when flooding), delivering them causes no \
         further datagram, each selected node writes exactly that frame once, nobody else writes. Exhaustive: all \
         sequences of length <= 4 over a 3-node universe per mode; proptest sequences up to 100 on 2-5 nodes. \
         Non-trivial = sequence with a unicast and a flood (router: a unicast); distinct = whole case.",
    );
    ctx.assume("network reliable and non-duplicating during these sequences; no time passes (learning expiry is C13's subject)");
    // exhaustive over a 3-node universe
    let mut alphabet: Vec<Op> = vec![];
    for at in 0..3u8 {
        for dst in [Dst::Node((at + 1) % 3), Dst::Unknown, Dst::Own] {
            alphabet.push(Op::Read { at, dst, host: 0 });
        }
    }
    alphabet.push(Op::Read { at: 0, dst: Dst::Broadcast, host: 1 });
    alphabet.push(Op::Read { at: 0, dst: Dst::Unknown, host: 3 }); // roaming host 3 seen behind node 0
    alphabet.push(Op::Read { at: 1, dst: Dst::Unknown, host: 3 }); // ... then behind node 1
    alphabet.push(Op::Read { at: 2, dst: Dst::Roaming(0), host: 0 }); // node 2 sends to the roaming host
    alphabet.push(Op::Outsider { at: 1, kind: 1 });
    alphabet.push(Op::Outsider { at: 2, kind: 4 }); // bare payload from an address node 2 is dialling (pending handshake)
    alphabet.push(Op::Read { at: 0, dst: Dst::Unknown, host: 1 + 10 }); // host 1 behind node 0 speaks in VLAN 0x67 with priority bits
    alphabet.push(Op::Read { at: 1, dst: Dst::Node(0), host: 10 }); // node 1 sends to it inside that VLAN, priority bits set
    alphabet.push(Op::Read { at: 1, dst: Dst::Node(0), host: 5 }); // ... and without priority bits
    let depth: u32 = ctx.tier.pick(3, 4);
    let na = alphabet.len() as u64;
    for mode in [MeshMode::Router, MeshMode::Switch, MeshMode::Hub] {
        let total = na.pow(depth);
        ctx.par_range_chunked(total * 2, 64, |_, i2| {
            let i_orig = i2;
            if mode != MeshMode::Router && i2 % 2 == 1 {
                return;
            }
            let mut i = i2 / 2;
            let mut ops = vec![];
            for _ in 0..depth {
                ops.push(alphabet[(i % na) as usize]);
                i /= na;
            }
            // every third sequence runs on a mesh in which nodes 0 and 1 talk unencrypted and node 2 does not
            let c = Case { mode, nodes: 3, ops, default_route: mode == MeshMode::Router && i_orig % 2 == 1, plain_mask: if i2 % 3 == 2 { 0b011 } else { 0 } };
            let v = run_case(ctx, &c);
            ctx.report(v);
        });
        ctx.subspace(&format!("{:?}: all sequences of length {} over an {}-op alphabet on 3 nodes (router: with and without a default-route claim)", mode, depth, na), total * 2, true);
    }
    let n: u32 = ctx.tier.pick(2_000, 20_000);
    ctx.proptest(
        "pt-forward",
        n,
        || (prop_oneof![Just(MeshMode::Router), Just(MeshMode::Switch), Just(MeshMode::Hub)], 2u8..=5, proptest::collection::vec(op_strategy(), 1..100), any::<bool>(), prop_oneof![2 => Just(0u8), 1 => Just(0xffu8), 2 => any::<u8>()]),
        |(mode, nodes, ops, dr, plain_mask)| {
            let c = Case { mode: *mode, nodes: *nodes, ops: ops.clone(), default_route: *dr, plain_mask: *plain_mask };
            let v = run_case(ctx, &c);
            if ops.len() < 6 {
                ctx.sample("sequence", || serde_json::to_value(&c).unwrap());
            }
            v
        },
    );
    ctx.subspace("proptest: sequences up to 100 ops on 2-5 nodes in each mode, per-node choice of allowing the unencrypted transport", n as u64, false);

    // coverage-guided search over the same histories (libFuzzer target hist_c10: bytes -> operations -> this oracle);
    // the committed corpus is replayed in-process in every tier, the campaign runs in the thorough tier
    crate::targets::replay_corpus(ctx, "hist_c10");
    if std::env::var("VCHECK_FUZZ").is_ok() && !ctx.quick() {
        crate::fuzzdrv::run_campaign_par(ctx, "hist_c10", 96000, 16, 80);
    }
}

pub fn replay(ctx: &Ctx, case: &Value) {
    if crate::fuzzdrv::replay(ctx, case) {
        return;
    }
    if let Ok(c) = serde_json::from_value::<Case>(case["case"].clone()) {
        for _ in 0..2 {
            let v = run_case(ctx, &c);
            ctx.report(v);
        }
    }
}
