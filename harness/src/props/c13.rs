//! C13 - switch learning is per VLAN and expires; hub and router learn nothing.
//! (a) tag normalisation over all 65536 tag-control values; (b) frame sequences on 3-4 real
//! switch-mode nodes with time steps around the switch timeout and disconnects, judged by the
//! learning part of RouteRef; same sequences in hub mode must show traffic-independent recipients.

use crate::engine::{Ctx, Viol};
use crate::sim::{base_config, eth_frame, NetSim};
use proptest::prelude::*;
use serde::{Deserialize, Serialize};
use serde_json::{json, Value};
use std::collections::{BTreeMap, BTreeSet};
use vpncloud::payload::{Frame, Protocol};
use vpncloud::types::Mode;

pub const SWITCH_TIMEOUT: u32 = 10;
pub const VLANS: [Option<u16>; 5] = [None, Some(0), Some(1), Some(0x67), Some(0xfff)];

#[derive(Clone, Copy, Debug, Serialize, Deserialize, PartialEq, Eq, Hash)]
pub enum Op {
    /// frame read at node `at`: source MAC index, destination MAC index, VLAN selector, PCP/DEI nibble
    Frame { at: u8, src: u8, dst: u8, vlan: u8, pcp: u8 },
    /// advance time by n seconds (housekeeping every second)
    Wait(u32),
    /// node closes its connections (sends close) and is gone
    Leave(u8),
}

#[derive(Clone, Debug, Serialize, Deserialize)]
pub struct Case {
    pub nodes: u8,
    pub hub: bool,
    pub ops: Vec<Op>,
    /// router mode on the Ethernet dissector (no claims): nothing is learned, unknown destinations are dropped
    #[serde(default)]
    pub router: bool,
}

fn macs(i: u8) -> [u8; 6] {
    [0x02, 0xaa, 0xbb, 0xcc, 0x00, i % 3 + 1]
}

/// normalised address key the property demands: 12-bit VLAN (0 = untagged) + MAC
fn key(vlan: Option<u16>, mac: [u8; 6]) -> (u16, [u8; 6]) {
    (vlan.map(|v| v & 0x0fff).unwrap_or(0), mac)
}

pub fn run_case(ctx: &Ctx, c: &Case) -> Vec<Viol> {
    ctx.eval();
    let cj = || json!({"kind": "learning", "case": c});
    let mut out = vec![];
    let n = c.nodes.clamp(3, 4) as usize;
    let mut sim: NetSim<Frame> = NetSim::new();
    for _ in 0..n {
        let mut cfg = base_config();
        cfg.auto_claim = false;
        cfg.mode = if c.router { Mode::Router } else if c.hub { Mode::Hub } else { Mode::Switch };
        cfg.switch_timeout = SWITCH_TIMEOUT;
        sim.add_node(&cfg, false);
    }
    for i in 0..n {
        for j in (i + 1)..n {
            let a = sim.addr(j);
            sim.connect(i, a);
        }
    }
    sim.settle();
    sim.run(2);
    if !sim.all_connected() {
        out.push(Viol::new("c13-setup", "mesh not connected".to_string(), cj()));
        return out;
    }
    sim.record = true;
    // reference: per node, (vlan, mac) -> (peer it was learned from, time of the last frame with that source)
    let mut learned: Vec<BTreeMap<(u16, [u8; 6]), (usize, i64)>> = vec![BTreeMap::new(); n];
    let mut alive: Vec<bool> = vec![true; n];
    let mut interesting = false;
    for (si, op) in c.ops.iter().enumerate() {
        match *op {
            Op::Wait(s) => {
                sim.run(s as i64);
                if s >= SWITCH_TIMEOUT - 1 {
                    interesting = true;
                }
                for x in 0..n {
                    sim.take_iface(x);
                }
            }
            Op::Leave(k) => {
                let k = k as usize % n;
                if alive[k] && alive.iter().filter(|a| **a).count() > 2 {
                    sim.nodes[k].node.verif_send_close();
                    sim.flush(k);
                    sim.settle();
                    sim.nodes[k].dead = true;
                    alive[k] = false;
                    for l in learned.iter_mut() {
                        l.retain(|_, (p, _)| *p != k);
                    }
                    interesting = true;
                }
            }
            Op::Frame { at, src, dst, vlan, pcp } => {
                let at = at as usize % n;
                if !alive[at] {
                    continue;
                }
                let v = VLANS[vlan as usize % VLANS.len()];
                let tci = v.map(|id| ((pcp as u16 & 0xf) << 12) | id);
                let frame = eth_frame(macs(dst), macs(src), tci, format!("f{}", si).as_bytes());
                for x in 0..n {
                    sim.take_iface(x);
                }
                let before = sim.wire_log.len();
                sim.put_payload(at, frame.clone());
                let recipients: BTreeSet<usize> = sim.wire_log[before..].iter().filter_map(|d| sim.index.get(&d.dst).copied()).collect();
                sim.settle();
                let peers: BTreeSet<usize> = (0..n).filter(|x| *x != at && alive[*x]).collect();
                let dkey = key(v, macs(dst));
                let now = sim.now;
                if c.router {
                    if !recipients.is_empty() {
                        out.push(Viol::new(
                            "router-recipients-depend-on-traffic",
                            format!("step {} {:?}: router mode without claims sent a frame to {:?} (it must learn nothing and drop unknown destinations)", si, op, recipients),
                            cj(),
                        ));
                        return out;
                    }
                } else if c.hub {
                    if recipients != peers {
                        out.push(Viol::new(
                            "hub-recipients-depend-on-traffic",
                            format!("step {} {:?}: hub mode sent to {:?}, all peers are {:?}", si, op, recipients, peers),
                            cj(),
                        ));
                        return out;
                    }
                } else {
                    // what the reference allows
                    let entry = learned[at].get(&dkey).copied();
                    let (must_unicast, may_unicast): (Option<usize>, Option<usize>) = match entry {
                        Some((p, t)) if alive[p] => {
                            let age = now - t;
                            if age < SWITCH_TIMEOUT as i64 {
                                (Some(p), Some(p))
                            } else if age <= SWITCH_TIMEOUT as i64 + 1 {
                                (None, Some(p)) // boundary tick: either
                            } else {
                                (None, None)
                            }
                        }
                        _ => (None, None),
                    };
                    let unicast_ok = |p: usize| recipients.len() == 1 && recipients.contains(&p);
                    let ok = match (must_unicast, may_unicast) {
                        (Some(p), _) => unicast_ok(p),
                        (None, Some(p)) => unicast_ok(p) || recipients == peers,
                        (None, None) => recipients == peers,
                    };
                    if !ok {
                        let sig = if entry.is_none() && recipients.len() == 1 && peers.len() > 1 {
                            "unknown-destination-not-flooded-or-learned-across-vlans"
                        } else if must_unicast.is_some() {
                            "learned-address-not-used"
                        } else {
                            "learned-address-outlives-timeout-or-peer"
                        };
                        out.push(Viol::new(
                            sig,
                            format!(
                                "step {} {:?} at t={}: frame to {:02x?} in VLAN {:?} went to {:?}; reference: learned entry {:?} (vlan 0 = untagged), peers {:?}",
                                si, op, now, macs(dst), v, recipients, entry, peers
                            ),
                            cj(),
                        ));
                        return out;
                    }
                    if entry.is_some() {
                        interesting = true;
                    }
                    // receivers learn the source (VLAN 0 counts as untagged)
                    let skey = key(v, macs(src));
                    for r in &recipients {
                        learned[*r].insert(skey, (at, now));
                    }
                }
                ctx.class(&format!("{}:recipients={}", if c.hub { "hub" } else { "switch" }, recipients.len().min(3)));
            }
        }
        if let Some((i, p, ctxt)) = sim.panics.first() {
            out.push(Viol::new(format!("node-{}", p.sig()), format!("step {}: node {} panicked: {} ({})", si, i, p.msg, ctxt), cj()));
            return out;
        }
    }
    if interesting {
        ctx.nontrivial(&format!("{:?}", c));
    }
    out
}

/// (a) tag normalisation: the address pair for every tag-control value
pub fn check_tag(ctx: &Ctx, tci: u16, nested: bool) -> Option<Viol> {
    ctx.eval();
    let mut f = vec![];
    f.extend_from_slice(&[2, 0, 0, 0, 0, 9]);
    f.extend_from_slice(&[2, 0, 0, 0, 0, 7]);
    f.extend_from_slice(&[0x81, 0x00, (tci >> 8) as u8, tci as u8]);
    if nested {
        f.extend_from_slice(&[0x81, 0x00, 0x0a, 0xbc]);
    }
    f.extend_from_slice(&[0x08, 0x00, 1, 2, 3, 4]);
    let vid = tci & 0x0fff;
    let (s, d) = match Frame::parse(&f) {
        Ok(x) => x,
        Err(e) => return Some(Viol::new("tagged-frame-rejected", format!("tci {:04x}: {}", tci, e), json!({"kind": "tag", "tci": tci, "nested": nested}))),
    };
    let sb = s.data[..s.len as usize].to_vec();
    let db = d.data[..d.len as usize].to_vec();
    let (es, ed): (Vec<u8>, Vec<u8>) = if vid == 0 {
        (vec![2, 0, 0, 0, 0, 7], vec![2, 0, 0, 0, 0, 9])
    } else {
        (
            [(vid >> 8) as u8, vid as u8].iter().copied().chain([2, 0, 0, 0, 0, 7]).collect(),
            [(vid >> 8) as u8, vid as u8].iter().copied().chain([2, 0, 0, 0, 0, 9]).collect(),
        )
    };
    if vid == 0 || tci >> 12 != 0 {
        ctx.nontrivial(&("tag", tci, nested));
    }
    if sb != es || db != ed {
        let sig = if vid == 0 { "vlan-0-not-folded-into-untagged" } else { "tag-normalisation-wrong" };
        return Some(Viol::new(
            sig,
            format!("tag-control {:04x} (VLAN id {}, PCP/DEI {:x}): addresses {} / {}, expected {:02x?} / {:02x?}", tci, vid, tci >> 12, s, d, es, ed),
            json!({"kind": "tag", "tci": tci, "nested": nested}),
        ));
    }
    None
}

fn op_strategy() -> impl Strategy<Value = Op> {
    prop_oneof![
        10 => (0u8..4, 0u8..3, 0u8..3, 0u8..5, 0u8..16).prop_map(|(at, src, dst, vlan, pcp)| Op::Frame { at, src, dst, vlan, pcp }),
        3 => prop_oneof![Just(0u32), Just(1), Just(SWITCH_TIMEOUT - 1), Just(SWITCH_TIMEOUT), Just(SWITCH_TIMEOUT + 1), Just(SWITCH_TIMEOUT + 2)].prop_map(Op::Wait),
        1 => (0u8..4).prop_map(Op::Leave),
    ]
}

pub fn run(ctx: &Ctx) {
    ctx.rule(
        "(a) all 65536 tag-control values behind ethertype 0x8100 (plain and with a nested second tag): the \
         dissected address must be 12-bit VLAN id + MAC, VLAN id 0 (priority-tagged) folded into the untagged 6-byte \
         form. (b) sequences over {frame read at a node: 3 MACs x VLAN {none, 0, 1, 0x67, 0xfff} x 16 PCP/DEI \
         nibbles; wait 0/1/timeout-1/timeout/timeout+1/+2 s; node leaves (close)} on 3-4 real switch-mode nodes \
         (switch timeout 10 s): the set of peers each frame is sent to must be exactly the learned next hop or all \
         peers as the learning reference allows (VLAN 0 == untagged; +-1 tick at the expiry boundary); the same \
         sequences in hub mode must always reach all peers. Exhaustive to a tier length over a reduced alphabet, \
         proptest to 300. Non-trivial = a frame towards a learned address, an expiry-sized wait or a leave; \
         distinct = whole case.",
    );
    // (a)
    ctx.par_range_chunked(65536 * 2, 4096, |_, i| {
        if let Some(v) = check_tag(ctx, (i / 2) as u16, i % 2 == 1) {
            ctx.violation(v);
        }
    });
    ctx.subspace("tag normalisation: all 65536 tag-control values x {single tag, nested tag}", 65536 * 2, true);
    ctx.sample("tag", || json!({"tci": "0xe000 (priority 7, VLAN 0)", "expected": "untagged 6-byte addresses"}));

    // (b) exhaustive over a reduced alphabet (3 nodes)
    let alphabet: Vec<Op> = vec![
        Op::Frame { at: 0, src: 0, dst: 1, vlan: 0, pcp: 0 }, // untagged A->B at node 0
        Op::Frame { at: 1, src: 1, dst: 0, vlan: 0, pcp: 0 }, // untagged B->A at node 1
        Op::Frame { at: 1, src: 1, dst: 0, vlan: 1, pcp: 5 }, // priority-tagged (VLAN 0) B->A at node 1
        Op::Frame { at: 1, src: 1, dst: 0, vlan: 3, pcp: 0 }, // VLAN 0x67 B->A at node 1
        Op::Frame { at: 2, src: 0, dst: 1, vlan: 0, pcp: 0 }, // A moves: same source seen from node 2
        Op::Frame { at: 0, src: 0, dst: 1, vlan: 3, pcp: 2 }, // VLAN 0x67 A->B at node 0
        Op::Wait(1),
        Op::Wait(SWITCH_TIMEOUT - 1),
        Op::Wait(SWITCH_TIMEOUT + 1),
        Op::Leave(1),
    ];
    let depth: u32 = ctx.tier.pick(4, 5);
    let na = alphabet.len() as u64;
    let total = na.pow(depth);
    ctx.par_range_chunked(total, 64, |_, mut i| {
        let mut ops = vec![];
        for _ in 0..depth {
            ops.push(alphabet[(i % na) as usize]);
            i /= na;
        }
        let hub = false;
        let c = Case { nodes: 3, hub, ops, router: false };
        let v = run_case(ctx, &c);
        ctx.report(v);
    });
    ctx.subspace(&format!("switch mode: all sequences of length {} over a 10-op alphabet on 3 nodes", depth), total, true);
    let n: u32 = ctx.tier.pick(2_000, 20_000);
    ctx.proptest("pt-learning", n, || (3u8..=4, 0u8..10, proptest::collection::vec(op_strategy(), 1..300)), |(nodes, mode, ops)| {
        let c = Case { nodes: *nodes, hub: *mode == 8, ops: ops.clone(), router: *mode == 9 };
        let v = run_case(ctx, &c);
        if ops.len() < 7 {
            ctx.sample("frame-sequence", || serde_json::to_value(&c).unwrap());
        }
        v
    });
    ctx.subspace("proptest: frame sequences up to 300 on 3-4 nodes (80% switch, 10% hub, 10% router)", n as u64, false);
    table_level(ctx);
}

/// (c) table level with claims present: learned entries must survive everything except the three events the
/// property names - in particular announcements and withdrawals of *other* peers (learning and claims share one table)
fn table_level(ctx: &Ctx) {
    use crate::props::c11::{run_table_case, Op as TOp, TableCase};
    let alphabet: Vec<TOp> = vec![
        TOp::Learn(1, 2),               // 10.1.3.1 learned from peer 1
        TOp::Learn(2, 2),               // ... moves to peer 2
        TOp::Learn(1, 9),               // a MAC learned from peer 1
        TOp::Announce(0, vec![1]),      // peer 0: 10/8
        TOp::Announce(0, vec![1, 4]),
        TOp::Announce(0, vec![]),       // peer 0 withdraws everything
        TOp::Announce(1, vec![3]),      // the learned-from peer itself announces
        TOp::Announce(1, vec![]),
        TOp::Disconnect(0),
        TOp::Disconnect(1),
        TOp::Lookup(2),
        TOp::Lookup(9),
        TOp::Tick(1),
        TOp::Tick(4),
    ];
    let depth: u32 = ctx.tier.pick(5, 6);
    let na = alphabet.len() as u64;
    let total = na.pow(depth);
    ctx.par_range_chunked(total, 4096, |_, mut i| {
        let mut ops = Vec::with_capacity(depth as usize);
        for _ in 0..depth {
            ops.push(alphabet[(i % na) as usize].clone());
            i /= na;
        }
        let has = ops.iter().any(|o| matches!(o, TOp::Learn(..))) && ops.iter().any(|o| matches!(o, TOp::Lookup(..)));
        if !has {
            return;
        }
        let c = TableCase { switch_timeout: 5, claim_timeout: 12, ops, strict_learning: true };
        let v = run_table_case(ctx, &c);
        ctx.report(v);
    });
    ctx.subspace(&format!("table level: all sequences of length {} over a 14-op alphabet mixing learned addresses with claims of the same and of other peers", depth), total, true);
    let n: u32 = ctx.tier.pick(20_000, 300_000);
    ctx.proptest(
        "pt-learn-table",
        n,
        || (prop_oneof![Just((5u32, 12u32)), Just((12, 5)), Just((6, 6))], proptest::collection::vec(crate::props::c11::op_strategy(), 0..120)),
        |((s, c), ops)| {
            let case = TableCase { switch_timeout: *s, claim_timeout: *c, ops: ops.clone(), strict_learning: true };
            run_table_case(ctx, &case)
        },
    );
    ctx.subspace("table level: proptest histories to length 120 with the strict learning rule", n as u64, false);

    // coverage-guided search over the same histories (libFuzzer target hist_c13: bytes -> operations -> this oracle);
    // the committed corpus is replayed in-process in every tier, the campaign runs in the thorough tier
    crate::targets::replay_corpus(ctx, "hist_c13");
    if std::env::var("VCHECK_FUZZ").is_ok() && !ctx.quick() {
        crate::fuzzdrv::run_campaign_par(ctx, "hist_c13", 96000, 16, 80);
    }
}

pub fn replay(ctx: &Ctx, case: &Value) {
    if crate::fuzzdrv::replay(ctx, case) {
        return;
    }
    if case["kind"].as_str() == Some("table") {
        if let Ok(c) = serde_json::from_value::<crate::props::c11::TableCase>(case["case"].clone()) {
            let v = crate::props::c11::run_table_case(ctx, &c);
            ctx.report(v);
        }
        return;
    }
    match case["kind"].as_str() {
        Some("tag") => {
            if let Some(v) = check_tag(ctx, case["tci"].as_u64().unwrap_or(0) as u16, case["nested"].as_bool().unwrap_or(false)) {
                ctx.violation(v);
            }
        }
        Some("learning") => {
            if let Ok(c) = serde_json::from_value::<Case>(case["case"].clone()) {
                let v = run_case(ctx, &c);
                ctx.report(v);
            }
        }
        _ => {}
    }
}
