//! C05 - handshake agrees and recovers under loss, duplication, reordering, dual open.
//! PC level: all schedules of two real handshake objects to a tier depth (re-executed per
//! schedule), proptest schedules to depth 200; node level in `node_level::c05_node`.

use crate::engine::{Ctx, Viol};
use crate::sim::{catch, Event, PairSim};
use proptest::prelude::*;
use serde::{Deserialize, Serialize};
use serde_json::{json, Value};

#[derive(Clone, Copy, Debug, Serialize, Deserialize, PartialEq, Eq, Hash)]
pub enum Act {
    InitA,
    InitB,
    /// deliver the in-flight datagram at this position (0 = oldest)
    Deliver(u8),
    DeliverNewest,
    Dup(u8),
    Drop(u8),
    TickA,
    TickB,
}

#[derive(Clone, Debug, Serialize, Deserialize)]
pub struct Case {
    /// true: end A has the larger salted node-id hash
    pub orientation: bool,
    pub acts: Vec<Act>,
    /// run the reliable suffix afterwards and demand completion
    pub liveness: bool,
}

pub struct Outcome {
    pub viols: Vec<Viol>,
    pub inflight: usize,
    pub both_complete: bool,
    pub dual_open: bool,
    pub faulty: bool,
}

fn cj(c: &Case) -> Value {
    json!({"kind": "schedule", "case": c})
}

/// checks the agreement clauses on a pair in which both ends completed
pub fn check_agreement(sim: &mut PairSim, c: &Case, out: &mut Vec<Viol>) {
    // payloads
    let mut rotation_starters = 0;
    let mut completions = [0u32; 2];
    for e in &sim.events {
        if let Event::Completed { side, reply_first, payload } = e {
            completions[*side] += 1;
            if **payload != sim.payload[1 - *side] {
                out.push(Viol::new("handshake-payload-mismatch", format!("side {} received node information that the other side did not offer", side), cj(c)));
            }
            if let Some(b) = reply_first {
                if *b != 0xff {
                    rotation_starters += 1;
                }
            }
        }
    }
    if completions[0] > 1 || completions[1] > 1 {
        out.push(Viol::new("completed-twice", format!("completions per side: {:?}", completions), cj(c)));
    }
    let (na, nb) = (sim.ends[0].algorithm_name(), sim.ends[1].algorithm_name());
    if na != nb {
        out.push(Viol::new("cipher-disagreement", format!("both completed, ciphers {} vs {}", na, nb), cj(c)));
    }
    if na != "PLAIN" && rotation_starters != 1 {
        out.push(Viol::new("rotation-roles", format!("{} ends started key rotation (exactly one expected)", rotation_starters), cj(c)));
    }
    for from in 0..2 {
        if let Err(e) = sim.probe(from) {
            out.push(Viol::new("keys-disagree", format!("both ends completed but {}", e), cj(c)));
        }
    }
    // nonce halves: the two ends must seal in different halves
    if let (Some(ca), Some(cb)) = (sim.ends[0].verif_core().map(|c| c.verif_nonce_half()), sim.ends[1].verif_core().map(|c| c.verif_nonce_half())) {
        if ca == cb {
            out.push(Viol::new("same-nonce-half", "both ends draw nonces from the same half".to_string(), cj(c)));
        }
    }
}

pub fn run_case(ctx: &Ctx, c: &Case) -> Outcome {
    ctx.eval();
    let mut sim = PairSim::simple(Some(c.orientation));
    let mut viols = vec![];
    let mut inits = [false, false];
    let mut faulty = false;
    let mut agreement_checked = false;
    let r = catch(|| {
        for a in &c.acts {
            match *a {
                Act::InitA => inits[0] |= sim.init(0),
                Act::InitB => inits[1] |= sim.init(1),
                Act::Deliver(i) => {
                    if i > 0 && (i as usize) < sim.inflight.len() {
                        faulty = true; // reordering
                    }
                    sim.deliver(i as usize);
                }
                Act::DeliverNewest => {
                    if sim.inflight.len() > 1 {
                        faulty = true;
                    }
                    let n = sim.inflight.len();
                    if n > 0 {
                        sim.deliver(n - 1);
                    }
                }
                Act::Dup(i) => {
                    if sim.dup(i as usize).is_some() {
                        faulty = true;
                    }
                }
                Act::Drop(i) => {
                    if sim.drop_msg(i as usize) {
                        faulty = true;
                    }
                }
                Act::TickA => sim.tick(0),
                Act::TickB => sim.tick(1),
            }
            if sim.completed[0] > 1 || sim.completed[1] > 1 {
                viols.push(Viol::new("completed-twice", format!("an end completed twice: {:?}", sim.completed), cj(c)));
                break;
            }
            if sim.both_ready() && !agreement_checked {
                agreement_checked = true;
                check_agreement(&mut sim, c, &mut viols);
            }
        }
        let any_fatal = sim.events.iter().any(|e| matches!(e, Event::Error { fatal: true, .. }));
        if any_fatal {
            // between two honest, mutually trusting parties no schedule may produce a fatal handshake error
            // other than a timeout
            let text: Vec<String> = sim.events.iter().filter_map(|e| if let Event::Error { fatal: true, text, side } = e { Some(format!("side {}: {}", side, text)) } else { None }).collect();
            viols.push(Viol::new("fatal-error-between-honest-parties", format!("fatal handshake error(s): {:?}", text), cj(c)));
        }
        // liveness: reliable suffix
        if c.liveness && viols.is_empty() && (inits[0] || inits[1]) && sim.ticks[0] < 60 && sim.ticks[1] < 60 && !any_fatal {
            for _round in 0..6 {
                sim.settle();
                if sim.both_ready() {
                    break;
                }
                sim.tick(0);
                sim.settle();
                sim.tick(1);
            }
            sim.settle();
            if !sim.both_ready() {
                viols.push(Viol::new(
                    "no-recovery-after-reliable-delivery",
                    format!("after the schedule, 6 rounds of reliable in-order delivery with ticks did not complete the handshake (completed: {:?}, timed out: {:?})", sim.completed, sim.timed_out),
                    cj(c),
                ));
            } else if !agreement_checked {
                check_agreement(&mut sim, c, &mut viols);
            }
        }
    });
    if let Err(p) = r {
        viols.push(Viol::new(format!("handshake-{}", p.sig()), format!("panic during schedule: {} at {}", p.msg, p.loc), cj(c)));
    }
    Outcome { viols, inflight: sim.inflight.len(), both_complete: sim.both_ready(), dual_open: inits[0] && inits[1], faulty }
}

/// DFS over canonical schedules (actions that are no-ops in the reached state are pruned);
/// every node of the tree is one executed schedule.
fn explore(ctx: &Ctx, orientation: bool, prefix: &mut Vec<Act>, depth: usize, count: &mut u64) {
    let c = Case { orientation, acts: prefix.clone(), liveness: true };
    // state at this node (without the suffix) decides which children exist
    let probe = run_case(ctx, &Case { liveness: false, ..c.clone() });
    let o = run_case(ctx, &c);
    *count += 1;
    if o.both_complete && (o.dual_open || o.faulty) {
        ctx.nontrivial(&(orientation, &prefix[..]));
    }
    if o.both_complete {
        ctx.class("schedule:both-complete");
    } else {
        ctx.class("schedule:incomplete");
    }
    if !prefix.is_empty() && prefix.len() <= 5 && o.dual_open && o.both_complete {
        ctx.sample("dual-open-schedule", || json!({"orientation": orientation, "acts": format!("{:?}", prefix)}));
    }
    let stop = ctx.report(o.viols) || ctx.report(probe.viols);
    if stop || prefix.len() >= depth {
        return;
    }
    let n = probe.inflight;
    let mut children = vec![Act::TickA, Act::TickB];
    if !prefix.contains(&Act::InitA) {
        children.push(Act::InitA);
    }
    if !prefix.contains(&Act::InitB) {
        children.push(Act::InitB);
    }
    if n >= 1 {
        children.push(Act::Deliver(0));
        children.push(Act::Dup(0));
        children.push(Act::Drop(0));
    }
    if n >= 2 {
        children.push(Act::DeliverNewest);
    }
    for a in children {
        prefix.push(a);
        explore(ctx, orientation, prefix, depth, count);
        prefix.pop();
    }
}

fn act_strategy() -> impl Strategy<Value = Act> {
    prop_oneof![
        1 => Just(Act::InitA),
        1 => Just(Act::InitB),
        6 => (0u8..4).prop_map(Act::Deliver),
        1 => Just(Act::DeliverNewest),
        2 => (0u8..3).prop_map(Act::Dup),
        2 => (0u8..3).prop_map(Act::Drop),
        2 => Just(Act::TickA),
        2 => Just(Act::TickB),
    ]
}

pub fn run(ctx: &Ctx) {
    ctx.rule(
        "PC level: schedules over {A initiates, B initiates, deliver oldest / newest / any in-flight datagram, \
         duplicate, drop, tick A, tick B} executed on two real PeerCrypto objects (re-created per schedule, \
         orientation of the salted node-id hashes pinned). All canonical schedules to a tier depth for both \
         orientations (each tree node is one schedule, followed by a reliable suffix for the recovery clause); \
         proptest schedules to depth 200. Oracle: <= 1 completion per end; when both completed: payloads as offered, \
         same cipher, probes open both ways, exactly one rotation starter, different nonce halves; no fatal error \
         between honest parties; reliable suffix completes the handshake. Node level: 2-3 nodes under a seeded \
         adversarial network then a reliable phase. Non-trivial = dual open or loss/duplicate/reorder, and both \
         ends completed; distinct = (orientation, schedule).",
    );
    ctx.assume("ECDH keys, salts and signatures come from SystemRandom and differ per run; the only control-flow relevant draw (hash order) is pinned");
    let depth: usize = ctx.tier.pick(7, 9);
    // split on canonical prefixes of length 2
    let firsts = [Act::InitA, Act::InitB, Act::TickA, Act::TickB];
    let mut roots: Vec<(bool, Vec<Act>)> = vec![];
    for o in [false, true] {
        roots.push((o, vec![]));
        for a in firsts {
            roots.push((o, vec![a]));
        }
    }
    // expand roots one more level to have enough parallel tasks
    let mut tasks: Vec<(bool, Vec<Act>)> = vec![];
    for (o, p) in &roots {
        if p.len() == 1 {
            let seconds: Vec<Act> = match p[0] {
                Act::InitA => vec![Act::InitB, Act::TickA, Act::TickB, Act::Deliver(0), Act::Dup(0), Act::Drop(0)],
                Act::InitB => vec![Act::InitA, Act::TickA, Act::TickB, Act::Deliver(0), Act::Dup(0), Act::Drop(0)],
                _ => vec![Act::InitA, Act::InitB, Act::TickA, Act::TickB],
            };
            for s in seconds {
                tasks.push((*o, vec![p[0], s]));
            }
        }
    }
    // the nodes of depth 0 and 1 themselves
    let total = std::sync::atomic::AtomicU64::new(0);
    ctx.par_items(&roots, |_, (o, p)| {
        let c = Case { orientation: *o, acts: p.clone(), liveness: true };
        let out = run_case(ctx, &c);
        ctx.report(out.viols);
        total.fetch_add(1, std::sync::atomic::Ordering::Relaxed);
    });
    ctx.par_items(&tasks, |_, (o, p)| {
        let mut prefix = p.clone();
        let mut count = 0;
        explore(ctx, *o, &mut prefix, depth, &mut count);
        total.fetch_add(count, std::sync::atomic::Ordering::Relaxed);
    });
    ctx.subspace(
        &format!("all canonical two-party schedules up to depth {} x both hash orientations (each followed by a reliable suffix)", depth),
        total.load(std::sync::atomic::Ordering::Relaxed),
        true,
    );

    let n: u32 = ctx.tier.pick(4_000, 60_000);
    ctx.proptest("pt-schedule", n, || (any::<bool>(), proptest::collection::vec(act_strategy(), 0..200)), |(o, acts)| {
        let c = Case { orientation: *o, acts: acts.clone(), liveness: true };
        let out = run_case(ctx, &c);
        if out.both_complete && (out.dual_open || out.faulty) {
            ctx.nontrivial(&(o, acts));
        }
        out.viols
    });
    ctx.subspace("proptest schedules up to depth 200 (deliver any of the 4 oldest in-flight datagrams)", n as u64, false);

    crate::props::node_level::c05_node(ctx);

    // coverage-guided search over the same histories (libFuzzer target hist_c05: bytes -> operations -> this oracle);
    // the committed corpus is replayed in-process in every tier, the campaign runs in the thorough tier
    crate::targets::replay_corpus(ctx, "hist_c05");
    if std::env::var("VCHECK_FUZZ").is_ok() && !ctx.quick() {
        crate::fuzzdrv::run_campaign_par(ctx, "hist_c05", 640000, 16, 160);
    }
}

pub fn replay(ctx: &Ctx, case: &Value) {
    if crate::fuzzdrv::replay(ctx, case) {
        return;
    }
    match case["kind"].as_str() {
        Some("schedule") => {
            if let Ok(c) = serde_json::from_value::<Case>(case["case"].clone()) {
                // crypto material differs per run: repeat
                for _ in 0..8 {
                    let o = run_case(ctx, &c);
                    ctx.report(o.viols);
                }
            }
        }
        Some(_) => crate::props::node_level::replay(ctx, case),
        None => {}
    }
}
