//! C15 - silent peers time out; healthy peers never do, for every timeout setting.
//! (a) announcement interval as a function of (own timeout, own keepalive, advertised timeouts),
//!     observed on real nodes with scripted trusted peers; (b) heterogeneous real meshes;
//! (c) silence injection; (d) reconnect back-off over 48 h of simulated time.

use crate::engine::{Ctx, Viol};
use crate::sim::{base_config, catch, node_id, NetSim, ScriptedPeer, T0};
use proptest::prelude::*;
use serde::{Deserialize, Serialize};
use serde_json::{json, Value};
use smallvec::smallvec;
use std::net::SocketAddr;
use vpncloud::messages::NodeInfo;
use vpncloud::payload::Frame;
use vpncloud::types::Mode;

pub const OWN_TIMEOUTS: [u32; 9] = [0, 1, 59, 60, 119, 120, 121, 300, 65535];
pub const KEEPALIVES: [Option<u32>; 4] = [None, Some(1), Some(30), Some(1000)];

#[derive(Clone, Debug, Serialize, Deserialize)]
pub struct IntervalCase {
    pub own_timeout: u32,
    pub keepalive: Option<u32>,
    /// timeouts advertised by 1..=3 scripted peers
    pub advertised: Vec<u16>,
    /// also observe the announcements on the wire for this many seconds (0 = schedule accessor only)
    pub observe_seconds: u32,
}

fn info_with_timeout(id: u8, t: u16) -> NodeInfo {
    NodeInfo { node_id: node_id(id), peers: smallvec![], claims: smallvec![], peer_timeout: Some(t), addrs: smallvec![] }
}

pub fn interval_case(ctx: &Ctx, c: &IntervalCase) -> Vec<Viol> {
    ctx.eval();
    let cj = || json!({"kind": "interval", "case": c});
    let mut out = vec![];
    let mut cfg = base_config();
    cfg.auto_claim = false;
    cfg.mode = Mode::Switch;
    cfg.peer_timeout = c.own_timeout;
    cfg.keepalive = c.keepalive;
    // node creation itself must not fail for a configurable setting
    let mut sim: NetSim<Frame> = NetSim::new();
    if let Err(p) = catch(|| sim.add_node(&cfg, false)) {
        out.push(Viol::new(
            "node-cannot-start-with-configurable-timeout",
            format!("a node with peer-timeout {} and keepalive {:?} panicked at start: {} at {}", c.own_timeout, c.keepalive, p.msg, p.loc),
            cj(),
        ));
        return out;
    }
    let mut peers: Vec<ScriptedPeer> = vec![];
    for (k, t) in c.advertised.iter().enumerate() {
        let addr: SocketAddr = format!("[fd00::a{}]:7{:03}", k, k).parse().unwrap();
        let mut p = ScriptedPeer::new(addr, "test123", info_with_timeout(60 + k as u8, *t));
        if !p.connect(&mut sim, 0) {
            out.push(Viol::new("interval-setup", format!("scripted peer {} could not connect", k), cj()));
            return out;
        }
        peers.push(p);
    }
    let min_adv = c.advertised.iter().copied().min().unwrap_or(300) as i64;
    // first housekeeping after the peers joined: the node announces and schedules the next announcement
    sim.tick();
    if let Some((_, p, ctxt)) = sim.panics.first() {
        out.push(Viol::new(
            "housekeeping-panics-for-advertised-timeout",
            format!("own timeout {} / keepalive {:?}, peers advertise {:?}: housekeeping panicked: {} at {} ({})", c.own_timeout, c.keepalive, c.advertised, p.msg, p.loc, ctxt),
            cj(),
        ));
        return out;
    }
    let still: usize = sim.nodes[0].node.verif_peers().len();
    let delay = sim.nodes[0].node.verif_next_peers() - sim.now;
    if still > 0 && !(delay == 1 || delay < min_adv) {
        out.push(Viol::new(
            "announcement-interval-not-below-advertised-timeout",
            format!("own timeout {} / keepalive {:?}, peers advertise {:?}: next announcement scheduled in {} s (must be 1 s or < {})", c.own_timeout, c.keepalive, c.advertised, delay, min_adv),
            cj(),
        ));
    }
    if delay < 1 {
        out.push(Viol::new("announcement-interval-not-positive", format!("next announcement scheduled {} s ahead", delay), cj()));
    }
    // wire observation: gaps between consecutive node-information messages received by peer 0
    if c.observe_seconds > 0 && !peers.is_empty() {
        let own_to = c.own_timeout as i64;
        for s in 0..c.observe_seconds {
            sim.tick();
            for p in peers.iter_mut() {
                p.pump(&mut sim, 0);
                // keep ourselves alive at the node under test (well inside its own timeout)
                if own_to <= 2 || (s as i64) % (own_to / 2).max(1) == 0 {
                    p.send(&mut sim, 0, vpncloud::messages::MESSAGE_TYPE_KEEPALIVE, &[]);
                }
            }
            if !sim.panics.is_empty() {
                break;
            }
        }
        if let Some((_, p, _)) = sim.panics.first() {
            out.push(Viol::new("housekeeping-panics-for-advertised-timeout", format!("panic during observation: {} at {}", p.msg, p.loc), cj()));
            return out;
        }
        let times: Vec<i64> = peers[0].received.iter().filter(|(_, ty, _)| *ty == vpncloud::messages::MESSAGE_TYPE_NODE_INFO).map(|(t, _, _)| *t).collect();
        let connected = sim.nodes[0].node.verif_peers().iter().any(|p| p.addr == peers[0].addr);
        for w in times.windows(2) {
            let gap = w[1] - w[0];
            if !(gap <= 1 || gap < min_adv) {
                out.push(Viol::new(
                    "announcement-gap-on-wire-not-below-advertised-timeout",
                    format!("own timeout {} / keepalive {:?}, advertised {:?}: announcements at t={} and t={} (gap {} s)", c.own_timeout, c.keepalive, c.advertised, w[0], w[1], gap),
                    cj(),
                ));
                break;
            }
        }
        if connected && times.len() < 2 && c.observe_seconds as i64 > 2 * min_adv.max(2) + 2 {
            out.push(Viol::new(
                "announcements-stop",
                format!("own timeout {} / keepalive {:?}, advertised {:?}: only {} announcements in {} s", c.own_timeout, c.keepalive, c.advertised, times.len(), c.observe_seconds),
                cj(),
            ));
        }
    }
    if c.advertised.iter().any(|t| *t < 400) || c.own_timeout < 120 {
        ctx.nontrivial(&format!("{:?}", c));
    }
    ctx.class(&format!("interval:min-advertised<{}", if min_adv < 120 { 120 } else if min_adv < 400 { 400 } else { 65536 }));
    out
}

// ---------------- (b) heterogeneous meshes ----------------

#[derive(Clone, Debug, Serialize, Deserialize)]
pub struct MeshCase {
    pub timeouts: Vec<u32>,
    pub keepalives: Vec<Option<u32>>,
}

pub fn mesh_case(ctx: &Ctx, c: &MeshCase) -> Vec<Viol> {
    ctx.eval();
    let cj = || json!({"kind": "mesh", "case": c});
    let mut out = vec![];
    let n = c.timeouts.len().clamp(2, 5);
    let mut sim: NetSim<Frame> = NetSim::new();
    for i in 0..n {
        let mut cfg = base_config();
        cfg.auto_claim = false;
        cfg.mode = Mode::Switch;
        cfg.peer_timeout = c.timeouts[i];
        cfg.keepalive = c.keepalives.get(i).copied().flatten();
        if let Err(p) = catch(|| sim.add_node(&cfg, false)) {
            out.push(Viol::new("node-cannot-start-with-configurable-timeout", format!("peer-timeout {}: {} at {}", c.timeouts[i], p.msg, p.loc), cj()));
            return out;
        }
    }
    for i in 0..n {
        for j in (i + 1)..n {
            let a = sim.addr(j);
            sim.connect(i, a);
        }
    }
    sim.settle();
    if !sim.all_connected() {
        out.push(Viol::new("mesh-setup", "initial handshakes did not complete".to_string(), cj()));
        return out;
    }
    let horizon = 3 * *c.timeouts[..n].iter().max().unwrap() as i64;
    for s in 0..horizon.min(4000) {
        sim.tick();
        if let Some((i, p, ctxt)) = sim.panics.first() {
            out.push(Viol::new("housekeeping-panics-for-advertised-timeout", format!("node {} (timeouts {:?}) panicked at t+{}: {} at {} ({})", i, c.timeouts, s, p.msg, p.loc, ctxt), cj()));
            return out;
        }
        if !sim.all_connected() {
            let missing: Vec<(usize, usize)> = (0..n).flat_map(|i| (0..n).map(move |j| (i, j))).filter(|(i, j)| i != j && !sim.is_connected(*i, *j)).collect();
            out.push(Viol::new(
                "healthy-peer-timed-out",
                format!("mesh with peer timeouts {:?} (keepalives {:?}), reliable network: at t+{} s these pairs are disconnected: {:?}", &c.timeouts[..n], c.keepalives, s, missing),
                cj(),
            ));
            return out;
        }
    }
    ctx.nontrivial(&format!("{:?}", c));
    out
}

// ---------------- (c) silence ----------------

pub fn silence_case(ctx: &Ctx, own_timeout: u32, silent_from: u32) -> Vec<Viol> {
    silence_case_mode(ctx, own_timeout, silent_from, false)
}

/// `learning`: switch mode without claims - the routes of the silent node are addresses learned from its traffic
pub fn silence_case_mode(ctx: &Ctx, own_timeout: u32, silent_from: u32, learning: bool) -> Vec<Viol> {
    silence_case_adv(ctx, own_timeout, silent_from, learning, 0)
}

/// `advertise`: 0 nothing configured; 1 every node advertises the same addresses (the wildcard address of the
/// default port, as with the default listen setting, and the same unique-local address in use on separate sites); 2 every node advertises an own distinct extra address; 3 the nodes advertise
/// each other's socket address as well (stale / copied configuration)
pub fn silence_case_adv(ctx: &Ctx, own_timeout: u32, silent_from: u32, learning: bool, advertise: u8) -> Vec<Viol> {
    silence_case_full(ctx, own_timeout, silent_from, learning, advertise, 0)
}

/// `payload_every` > 0: the node is not completely silent - its node information and keepalive messages are lost, but
/// a payload frame of it still arrives every `payload_every` seconds. Only node information and keepalives count.
pub fn silence_case_full(ctx: &Ctx, own_timeout: u32, silent_from: u32, learning: bool, advertise: u8, payload_every: u32) -> Vec<Viol> {
    ctx.eval();
    let case = json!({"kind": "silence", "own_timeout": own_timeout, "silent_from": silent_from, "learning": learning, "advertise": advertise, "payload_every": payload_every});
    let mut out = vec![];
    let mut sim: NetSim<Frame> = NetSim::new();
    for i in 0..3 {
        let mut cfg = base_config();
        cfg.auto_claim = false;
        if learning {
            cfg.mode = Mode::Switch;
            cfg.switch_timeout = 10_000;
        } else {
            cfg.mode = Mode::Router;
            cfg.claims = vec![format!("10.{}.0.0/16", i + 1)];
        }
        cfg.peer_timeout = own_timeout;
        match advertise {
            1 => cfg.advertise_addresses = vec!["*:3210".to_string(), "[fd77::10]:3210".to_string()],
            2 => cfg.advertise_addresses = vec![format!("[fd77::{}]:3210", i + 1), format!("192.168.{}.10:3210", i + 1)],
            3 => cfg.advertise_addresses = vec![crate::sim::sim_addr((i + 1) % 3).to_string()],
            _ => {}
        }
        sim.add_node(&cfg, false);
    }
    let (a1, a2) = (sim.addr(1), sim.addr(2));
    sim.connect(0, a1);
    sim.connect(0, a2);
    sim.connect(1, a2);
    sim.settle();
    sim.run(silent_from as i64);
    if !sim.all_connected() {
        if advertise == 3 {
            // a node that claims another node's address as its own is a configuration the property does not cover
            ctx.class("silence:setup-not-connected-with-copied-addresses");
            return out;
        }
        out.push(Viol::new("silence-setup", "mesh not connected before the silence".to_string(), case));
        return out;
    }
    if learning {
        // a host behind node 2 talks: the others learn its address from node 2
        sim.put_payload(2, crate::sim::eth_frame([0xff; 6], [2, 0, 0, 0, 9, 9], None, b"hello"));
        sim.settle();
        for n in 0..3 {
            sim.take_iface(n);
        }
    }
    // node 2 goes silent: everything it sends is lost from now on
    let x = sim.addr(2);
    let pass = std::rc::Rc::new(std::cell::Cell::new(false));
    let pass2 = pass.clone();
    sim.policy = Some(Box::new(move |d| if d.src == x && !pass2.get() { vec![] } else { vec![0] }));
    sim.record = true;
    // last refresh of X at Y = expiry - timeout
    let mut removed_at: [Option<i64>; 2] = [None, None];
    let expiry: Vec<i64> = (0..2).map(|y| sim.nodes[y].node.verif_peers().iter().find(|p| p.addr == x).map(|p| p.timeout).unwrap_or(0)).collect();
    for k in 0..(own_timeout as i64 + 140) {
        sim.tick();
        if payload_every > 0 && k % payload_every as i64 == 0 && !sim.nodes[2].dead {
            // a payload frame / packet read at the quiet node reaches its peers (nothing else of it does)
            pass.set(true);
            let f = if learning { crate::sim::eth_frame([0xff; 6], [2, 0, 0, 0, 9, 9], None, b"still talking") } else { crate::sim::ipv4_packet([10, 3, 0, 1], [10, 1 + (k % 2) as u8, 0, 1], b"still talking") };
            sim.put_payload(2, f);
            sim.settle();
            pass.set(false);
            for n in 0..3 {
                sim.take_iface(n);
            }
        }
        for y in 0..2 {
            let present = sim.nodes[y].node.verif_peers().iter().any(|p| p.addr == x);
            if !present && removed_at[y].is_none() {
                removed_at[y] = Some(sim.now);
                // routes gone together with the peer
                let (claims, cache) = sim.nodes[y].node.verif_table().verif_dump();
                if claims.iter().any(|(p, _, _)| *p == x) || cache.iter().any(|(_, p, _)| *p == x) {
                    out.push(Viol::new("routes-outlive-timed-out-peer", format!("node {} removed the silent peer but kept its routes", y), case.clone()));
                }
            }
        }
    }
    for y in 0..2 {
        match removed_at[y] {
            None => out.push(Viol::new(
                "silent-peer-not-removed",
                format!("node {}: peer silent since t={} still listed {} s later (peer timeout {})", y, T0 + silent_from as i64, own_timeout + 140, own_timeout),
                case.clone(),
            )),
            Some(t) => {
                // removed at the first tick after last-refresh + timeout, not earlier
                let e = expiry[y];
                if t <= e {
                    out.push(Viol::new("peer-removed-before-timeout", format!("node {}: removed at t={} although its entry was valid until t={}", y, t, e), case.clone()));
                } else if t > e + 2 {
                    out.push(Viol::new("silent-peer-removed-late", format!("node {}: entry expired at t={} but the peer was removed only at t={}", y, e, t), case.clone()));
                }
                // a dial towards X follows
                let yaddr = sim.addr(y);
                if !sim.wire_log.iter().any(|d| d.src == yaddr && d.dst == x && d.sent_at >= t && d.data.first() == Some(&0xff)) {
                    out.push(Viol::new("timed-out-peer-not-redialled", format!("node {}: no handshake datagram towards the removed peer after t={}", y, t), case.clone()));
                }
            }
        }
    }
    ctx.nontrivial(&("silence", own_timeout, silent_from, learning, advertise, payload_every));
    if payload_every > 0 {
        ctx.class("silence:payload-still-arrives");
    }
    out
}

// ---------------- (d) back-off ----------------

pub fn backoff_case(ctx: &Ctx, hours: u32) -> Vec<Viol> {
    ctx.eval();
    let case = json!({"kind": "backoff", "hours": hours});
    let mut out = vec![];
    let mut sim: NetSim<Frame> = NetSim::new();
    let mut cfg = base_config();
    cfg.auto_claim = false;
    sim.add_node(&cfg, false);
    let ghost: SocketAddr = "[fd00::404]:4040".parse().unwrap();
    sim.configure_peer(0, ghost);
    let mut last = sim.now;
    let mut max_gap = 0i64;
    let mut attempts = 0u64;
    let total = hours as i64 * 3600;
    for _ in 0..total {
        sim.tick();
        let n = sim.stray.iter().filter(|d| d.dst == ghost).count();
        sim.stray.clear();
        if n > 0 {
            attempts += n as u64;
            max_gap = max_gap.max(sim.now - last);
            last = sim.now;
        }
        if !sim.panics.is_empty() {
            break;
        }
    }
    max_gap = max_gap.max(sim.now - last);
    if let Some((_, p, ctxt)) = sim.panics.first() {
        out.push(Viol::new(format!("node-{}", p.sig()), format!("panic while retrying an unreachable peer: {} ({})", p.msg, ctxt), case.clone()));
    }
    if max_gap > 3602 {
        out.push(Viol::new(
            "reconnect-gap-exceeds-one-hour",
            format!("configured unreachable peer: {} s without any datagram towards it within {} h ({} datagrams in total)", max_gap, hours, attempts),
            case.clone(),
        ));
    }
    ctx.extra("backoff", json!({"hours": hours, "datagrams_towards_peer": attempts, "largest_gap_s": max_gap}));
    ctx.nontrivial(&("backoff", hours));
    out
}

pub fn run(ctx: &Ctx) {
    ctx.rule(
        "(a) interval: real node with own (peer timeout, keepalive) from {0,1,59,60,119,120,121,300,65535} x {none, \
         1,30,1000} and 1-3 scripted trusted peers advertising timeouts: every advertised value < 400 plus sampled \
         values up to 65535 (thorough: all 65536) - after the first housekeeping the scheduled delay to the next \
         announcement must be 1 s or strictly below the smallest advertised timeout; for a subset the announcements \
         are also time-stamped on the wire by the scripted peer (which decrypts them). (b) real meshes of 2-5 nodes \
         with different timeouts (>= 2 s) run for 3 x the largest timeout: never a disconnected pair. (c) silence: \
         all datagrams of one node dropped from time t (every t in a window): the others remove it and its routes at \
         the first tick after expiry, not earlier, and re-dial. (d) unreachable configured peer for 48 h: never more \
         than 3600 s (+2) without a datagram towards it. Non-trivial = advertised or own timeout in the interesting \
         range (< 400 / < 120), every mesh / silence / back-off case; distinct = whole case.",
    );
    ctx.assume("housekeeping is driven every simulated second (run() uses a 2 s cadence; the 1 s cadence is the stricter one for boundary checks)");
    ctx.assume("mesh runs use peer timeouts >= 2 s: with timeout 0 or 1 a node forgets every peer between two announcements by definition");

    // (a) grid
    let mut cases: Vec<IntervalCase> = vec![];
    let dense: u32 = 400;
    let sample_step: u32 = ctx.tier.pick(997, 1);
    for own in OWN_TIMEOUTS {
        for ka in KEEPALIVES {
            let mut adv: Vec<u32> = (0..dense).collect();
            let mut v = dense;
            while v <= 65535 {
                adv.push(v);
                v += sample_step;
            }
            adv.push(65535);
            for a in adv {
                if ctx.quick() && a >= 150 && (own == 59 || own == 119 || own == 121 || ka == Some(30)) {
                    continue; // quick tier: full dense range for the remaining own settings
                }
                cases.push(IntervalCase { own_timeout: own, keepalive: ka, advertised: vec![a as u16], observe_seconds: 0 });
            }
        }
    }
    let total = cases.len() as u64;
    ctx.par_items(&cases, |_, c| {
        let v = interval_case(ctx, c);
        ctx.report(v);
    });
    ctx.subspace("interval: 9 own timeouts x 4 keepalive options x advertised timeouts (dense below 400, sampled/all above)", total, !ctx.quick());
    ctx.sample("interval", || serde_json::to_value(&cases[cases.len() / 3]).unwrap());
    // several peers + wire observation
    let n: u32 = ctx.tier.pick(800, 8_000);
    ctx.proptest(
        "pt-interval",
        n,
        || {
            (
                0usize..9,
                0usize..4,
                proptest::collection::vec(prop_oneof![2 => 0u16..400, 1 => any::<u16>(), 1 => prop_oneof![Just(0u16), Just(1), Just(119), Just(120), Just(121), Just(122), Just(300)]], 1..=3),
                prop_oneof![Just(0u32), 20u32..700],
            )
        },
        |(o, k, adv, obs)| {
            let c = IntervalCase { own_timeout: OWN_TIMEOUTS[*o], keepalive: KEEPALIVES[*k], advertised: adv.clone(), observe_seconds: *obs };
            interval_case(ctx, &c)
        },
    );
    ctx.subspace("proptest: 1-3 scripted peers with boundary-biased advertised timeouts, announcements time-stamped on the wire", n as u64, false);

    // (b) meshes
    let grid: [u32; 9] = [2, 3, 59, 60, 119, 120, 121, 300, 1000];
    let nm: u32 = ctx.tier.pick(300, 3_000);
    ctx.proptest(
        "pt-mesh",
        nm,
        || (proptest::collection::vec(0usize..9, 2..=5), proptest::collection::vec(0usize..4, 5)),
        |(ts, ks)| {
            let c = MeshCase { timeouts: ts.iter().map(|i| grid[*i]).collect(), keepalives: ks.iter().map(|i| KEEPALIVES[*i]).collect() };
            let v = mesh_case(ctx, &c);
            ctx.sample("mesh", || serde_json::to_value(&c).unwrap());
            v
        },
    );
    ctx.subspace("meshes of 2-5 real nodes with timeouts from {2,3,59,60,119,120,121,300,1000} for 3 x the largest timeout", nm as u64, false);
    // every homogeneous and every pairwise combination
    let mut pairs = vec![];
    for a in grid {
        for b in grid {
            pairs.push(MeshCase { timeouts: vec![a, b], keepalives: vec![None, None] });
        }
    }
    ctx.par_items(&pairs, |_, c| {
        let v = mesh_case(ctx, c);
        ctx.report(v);
    });
    ctx.subspace("2-node meshes: every ordered pair of timeouts from the grid", pairs.len() as u64, true);

    // (c) silence
    let window: u32 = ctx.tier.pick(40, 120);
    let mut sc = vec![];
    for own in [120u32, 300] {
        for t in 0..window {
            sc.push((own, t));
        }
    }
    ctx.par_items(&sc, |_, (own, t)| {
        let v = silence_case(ctx, *own, *t);
        ctx.report(v);
    });
    ctx.subspace("silence injection: peer timeouts {120, 300} x silence starting at every second of a window", sc.len() as u64, true);
    let sl: Vec<(u32, u32)> = vec![(120, 0), (120, 7), (300, 3), (300, 50)];
    ctx.par_items(&sl, |_, (own, t)| {
        let v = silence_case_mode(ctx, *own, *t, true);
        ctx.report(v);
    });
    ctx.subspace("silence injection in switch mode: the silent node's routes are learned addresses (no claims)", sl.len() as u64, true);
    let mut sa = vec![];
    for adv in 1..=2u8 {
        for (own, t) in [(120u32, 0u32), (120, 9), (300, 3), (300, 31)] {
            for learning in [false, true] {
                sa.push((own, t, learning, adv));
            }
        }
    }
    ctx.par_items(&sa, |_, (own, t, learning, adv)| {
        let v = silence_case_adv(ctx, *own, *t, *learning, *adv);
        ctx.report(v);
    });
    ctx.subspace("silence injection with advertised addresses: the same private address advertised by every node / a distinct extra address per node", sa.len() as u64, true);

    let mut sp = vec![];
    for (own, t) in [(120u32, 0u32), (120, 13), (300, 3), (300, 44)] {
        for learning in [false, true] {
            for every in [1u32, 10, 100] {
                sp.push((own, t, learning, every));
            }
        }
    }
    ctx.par_items(&sp, |_, (own, t, learning, every)| {
        let v = silence_case_full(ctx, *own, *t, *learning, 0, *every);
        ctx.report(v);
    });
    ctx.subspace("silence of node information and keepalives only: payload of the quiet node still arrives every 1 / 10 / 100 s", sp.len() as u64, true);

    // (d) back-off
    let v = backoff_case(ctx, 48);
    ctx.report(v);
    ctx.subspace("back-off: unreachable configured peer, 48 h simulated", 1, true);
}

pub fn replay(ctx: &Ctx, case: &Value) {
    let v = match case["kind"].as_str() {
        Some("interval") => serde_json::from_value::<IntervalCase>(case["case"].clone()).map(|c| interval_case(ctx, &c)).unwrap_or_default(),
        Some("mesh") => serde_json::from_value::<MeshCase>(case["case"].clone()).map(|c| mesh_case(ctx, &c)).unwrap_or_default(),
        Some("silence") => silence_case_full(ctx, case["own_timeout"].as_u64().unwrap_or(300) as u32, case["silent_from"].as_u64().unwrap_or(0) as u32, case["learning"].as_bool().unwrap_or(false), case["advertise"].as_u64().unwrap_or(0) as u8, case["payload_every"].as_u64().unwrap_or(0) as u32),
        Some("backoff") => backoff_case(ctx, case["hours"].as_u64().unwrap_or(48) as u32),
        _ => vec![],
    };
    ctx.report(v);
}
