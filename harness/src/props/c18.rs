//! C18 - generated and password-derived keys are always usable and deterministic.
//! Oracles: round trip through the text form + acceptance by the configuration parser;
//! determinism (same password => same pair, handshake succeeds; different => fails).

use crate::engine::{hex, unhex, Ctx, Viol};
use crate::sim::{catch, crypto_from, node_id, node_info, simple_handshake, HsOutcome};
use proptest::prelude::*;
use ring::signature::{Ed25519KeyPair, KeyPair};
use serde_json::{json, Value};
use std::num::NonZeroU32;
use vpncloud::crypto::{Config as CryptoConfig, Crypto};
use vpncloud::util::{from_base62, to_base62};

const SALT: &[u8; 32] = b"vpncloudVPNCLOUDvpncl0udVpnCloud";

/// Mirror of key generation from a given seed: the text forms exactly as `generate_keypair` prints them.
/// (The mirror itself is checked against `generate_keypair(Some(password))` for every password.)
fn texts_from_seed(seed: &[u8; 32]) -> (String, String, [u8; 32]) {
    let kp = Ed25519KeyPair::from_seed_unchecked(seed).expect("seed");
    let mut pk = [0u8; 32];
    pk.copy_from_slice(kp.public_key().as_ref());
    (to_base62(seed), to_base62(&pk), pk)
}

fn seed_from_password(pw: &str) -> [u8; 32] {
    let mut key = [0u8; 32];
    ring::pbkdf2::derive(ring::pbkdf2::PBKDF2_HMAC_SHA256, NonZeroU32::new(4096).unwrap(), SALT, pw.as_bytes(), &mut key);
    key
}

fn strip(b: &[u8]) -> &[u8] {
    let n = b.iter().take_while(|x| **x == 0).count();
    &b[n..]
}

/// the key texts must be accepted as private key alone, as pair, and the public key as trusted key
fn check_texts(ctx: &Ctx, privt: &str, pubt: &str, expect_pk: Option<&[u8; 32]>, case: &Value, what: &str) -> Vec<Viol> {
    let mut out = vec![];
    let id = node_id(1);
    let lead = |pk: Option<&[u8; 32]>| pk.map(|p| p[0] == 0).unwrap_or(false);
    let sigsfx = if privt.len() < 43 && from_base62(privt).map(|v| v.len() < 32).unwrap_or(false) {
        "short-private-text"
    } else if lead(expect_pk) || from_base62(pubt).map(|v| v.len() < 32).unwrap_or(false) {
        "short-public-text"
    } else {
        "full-length"
    };
    // private key alone
    let c1 = CryptoConfig { private_key: Some(privt.to_string()), ..Default::default() };
    match catch(|| crypto_from(&c1, id)) {
        Err(p) => out.push(Viol::new(format!("private-key-{}", p.sig()), format!("{}: Crypto::new panicked: {}", what, p.msg), case.clone())),
        Ok(Err(e)) => out.push(Viol::new(
            format!("private-key-rejected/{}", sigsfx),
            format!("{}: printed private key {:?} rejected when configured alone: {}", what, privt, e),
            case.clone(),
        )),
        Ok(Ok(c)) => {
            if let Some(pk) = expect_pk {
                if &c.verif_public_key() != pk {
                    out.push(Viol::new("private-key-denotes-other-key", format!("{}: configured private key yields a different public key", what), case.clone()));
                }
            }
        }
    }
    // pair
    let c2 = CryptoConfig { private_key: Some(privt.to_string()), public_key: Some(pubt.to_string()), ..Default::default() };
    match catch(|| crypto_from(&c2, id)) {
        Err(p) => out.push(Viol::new(format!("key-pair-{}", p.sig()), format!("{}: Crypto::new panicked: {}", what, p.msg), case.clone())),
        Ok(Err(e)) => out.push(Viol::new(
            format!("key-pair-rejected/{}", sigsfx),
            format!("{}: printed key pair ({:?}, {:?}) rejected: {}", what, privt, pubt, e),
            case.clone(),
        )),
        Ok(Ok(_)) => {}
    }
    // public key as trusted key of another node
    let c3 = CryptoConfig { password: Some("other".into()), trusted_keys: vec![pubt.to_string()], ..Default::default() };
    match catch(|| crypto_from(&c3, id)) {
        Err(p) => out.push(Viol::new(format!("trusted-key-{}", p.sig()), format!("{}: Crypto::new panicked: {}", what, p.msg), case.clone())),
        Ok(Err(e)) => out.push(Viol::new(
            format!("trusted-key-rejected/{}", sigsfx),
            format!("{}: printed public key {:?} rejected as trusted key: {}", what, pubt, e),
            case.clone(),
        )),
        Ok(Ok(c)) => {
            if let Some(pk) = expect_pk {
                if !c.verif_trusted_keys().contains(pk) {
                    out.push(Viol::new("trusted-key-denotes-other-key", format!("{}: trusted key text denotes different bytes", what), case.clone()));
                }
            }
        }
    }
    // own key listed in the trusted keys together with another site's key (both orders, repeated): both must be
    // trusted, so that a second node holding the same pair is accepted
    let other_pub = Crypto::generate_keypair(Some("second site")).1;
    for list in [vec![pubt.to_string(), other_pub.clone()], vec![other_pub.clone(), pubt.to_string(), pubt.to_string()]] {
        let c4 = CryptoConfig { private_key: Some(privt.to_string()), trusted_keys: list.clone(), ..Default::default() };
        if let (Ok(Ok(c)), Some(pk)) = (catch(|| crypto_from(&c4, id)), expect_pk) {
            let t = c.verif_trusted_keys();
            if !t.contains(pk) || t.len() < 2 {
                out.push(Viol::new(
                    "own-key-listed-with-others-not-trusted",
                    format!("{}: trusted keys {:?} configured, effective trust set has {} keys and contains the own key: {}", what, list, t.len(), t.contains(pk)),
                    case.clone(),
                ));
            }
        }
    }
    // private -> public
    match catch(|| Crypto::public_key_from_private_key(privt)) {
        Err(p) => out.push(Viol::new(format!("pub-from-priv-{}", p.sig()), format!("{}: panicked: {}", what, p.msg), case.clone())),
        Ok(Err(e)) => out.push(Viol::new(
            format!("pub-from-priv-rejected/{}", sigsfx),
            format!("{}: public_key_from_private_key({:?}) failed: {}", what, privt, e),
            case.clone(),
        )),
        Ok(Ok(p)) => {
            if p != pubt {
                out.push(Viol::new("pub-from-priv-mismatch", format!("{}: private key {:?} yields {:?}, printed {:?}", what, privt, p, pubt), case.clone()));
            }
        }
    }
    ctx.class(&format!("texts:{}", sigsfx));
    out
}

/// A printed pair as such (whatever produced it): the public text must be the public key of the private text, and the
/// pair must be usable in every role. Expected key: derived here from the private text with ring, independently of vpncloud.
pub fn check_pair(ctx: &Ctx, privt: &str, pubt: &str, what: &str) -> Vec<Viol> {
    ctx.eval();
    let case = json!({"kind": "pair", "private": privt, "public": pubt});
    let mut out = vec![];
    let mut seed = match from_base62(privt) {
        Ok(v) if v.len() <= 32 => v,
        _ => {
            out.push(Viol::new("printed-private-key-not-base62-of-32-bytes", format!("{}: {:?}", what, privt), case));
            return out;
        }
    };
    while seed.len() < 32 {
        seed.insert(0, 0);
    }
    let mut sd = [0u8; 32];
    sd.copy_from_slice(&seed);
    let (_, _, pk) = texts_from_seed(&sd);
    let mut printed = match from_base62(pubt) {
        Ok(v) if v.len() <= 32 => v,
        _ => {
            out.push(Viol::new("printed-public-key-not-base62-of-32-bytes", format!("{}: {:?}", what, pubt), case));
            return out;
        }
    };
    while printed.len() < 32 {
        printed.insert(0, 0);
    }
    if printed[..] != pk[..] {
        out.push(Viol::new(
            "printed-public-key-is-not-the-key-of-the-printed-private-key",
            format!("{}: private {:?} has public key {}, printed public key is {}", what, privt, hex(&pk), hex(&printed)),
            case.clone(),
        ));
    }
    out.extend(check_texts(ctx, privt, pubt, Some(&pk), &case, what));
    if pk[0] == 0 || sd[0] == 0 {
        ctx.class("pair:leading-zero-byte");
    }
    ctx.nontrivial(&("pair", privt));
    out
}

pub fn check_seed(ctx: &Ctx, seed: &[u8; 32]) -> Vec<Viol> {
    ctx.eval();
    let (privt, pubt, pk) = texts_from_seed(seed);
    let case = json!({"kind": "seed", "seed": hex(seed)});
    let lz = seed.iter().take_while(|x| **x == 0).count();
    if lz > 0 || pk[0] == 0 {
        ctx.nontrivial(&("seed-leading-zero", seed));
    }
    check_texts(ctx, &privt, &pubt, Some(&pk), &case, &format!("seed with {} leading zero bytes (public key starts with {:02x})", lz, pk[0]))
}

pub fn check_password(ctx: &Ctx, pw: &str, other: &str) -> Vec<Viol> {
    ctx.eval();
    let case = json!({"kind": "password", "password": pw, "other": other});
    let mut out = vec![];
    let (p1, q1) = Crypto::generate_keypair(Some(pw));
    let (p2, q2) = Crypto::generate_keypair(Some(pw));
    if (p1.clone(), q1.clone()) != (p2, q2) {
        out.push(Viol::new("password-nondeterministic", format!("password {:?} gave two different key pairs", pw), case.clone()));
    }
    let seed = seed_from_password(pw);
    let (mp, mq, pk) = texts_from_seed(&seed);
    if (mp, mq) != (p1.clone(), q1.clone()) {
        out.push(Viol::new(
            "mirror-mismatch",
            format!("harness mirror of key generation disagrees with generate_keypair for {:?} (harness problem or changed derivation)", pw),
            case.clone(),
        ));
    }
    out.extend(check_texts(ctx, &p1, &q1, Some(&pk), &case, &format!("password {:?}", pw)));
    // a node configured with the password itself must use the same key
    let cp = CryptoConfig { password: Some(pw.to_string()), ..Default::default() };
    match catch(|| crypto_from(&cp, node_id(1))) {
        Ok(Ok(c)) => {
            if c.verif_public_key() != pk {
                out.push(Viol::new("password-node-key-differs", format!("node with password {:?} uses another key than genkey prints", pw), case.clone()));
            }
        }
        Ok(Err(e)) => out.push(Viol::new("password-node-rejected", format!("password {:?} rejected: {}", pw, e), case.clone())),
        Err(p) => out.push(Viol::new(format!("password-node-{}", p.sig()), p.msg, case.clone())),
    }
    // two nodes sharing the password handshake; with different passwords they do not
    let mk = |pw: &str, n: u8| crypto_from(&CryptoConfig { password: Some(pw.to_string()), ..Default::default() }, node_id(n));
    if let (Ok(a), Ok(b)) = (mk(pw, 1), mk(pw, 2)) {
        let mut pa = a.peer_instance(node_info(1));
        let mut pb = b.peer_instance(node_info(2));
        match catch(|| simple_handshake(&mut pa, &mut pb)) {
            Ok(HsOutcome::Done(fb, fa)) => {
                if *fb != node_info(2) || *fa != node_info(1) {
                    out.push(Viol::new("handshake-payload", "same password: payload mismatch".to_string(), case.clone()));
                }
            }
            Ok(HsOutcome::Failed(step, e)) => out.push(Viol::new(
                "same-password-no-handshake",
                format!("two nodes with password {:?} failed to handshake at step {}: {}", pw, step, e),
                case.clone(),
            )),
            Err(p) => out.push(Viol::new(format!("handshake-{}", p.sig()), p.msg, case.clone())),
        }
    }
    if pw != other {
        if let (Ok(a), Ok(b)) = (mk(pw, 1), mk(other, 2)) {
            let mut pa = a.peer_instance(node_info(1));
            let mut pb = b.peer_instance(node_info(2));
            match catch(|| simple_handshake(&mut pa, &mut pb)) {
                Ok(HsOutcome::Done(..)) => out.push(Viol::new(
                    "different-passwords-handshake",
                    format!("nodes with passwords {:?} and {:?} completed a handshake", pw, other),
                    case.clone(),
                )),
                Ok(HsOutcome::Failed(..)) => {}
                Err(p) => out.push(Viol::new(format!("handshake-{}", p.sig()), p.msg, case.clone())),
            }
        }
        ctx.nontrivial(&("password-pair", pw, other));
    }
    out
}

pub fn check_codec(ctx: &Ctx, data: &[u8]) -> Vec<Viol> {
    ctx.eval();
    let case = json!({"kind": "codec", "bytes": hex(data)});
    let mut out = vec![];
    let r = catch(|| {
        let t = to_base62(data);
        (t.clone(), from_base62(&t))
    });
    match r {
        Err(p) => out.push(Viol::new(format!("codec-{}", p.sig()), format!("base62 codec panicked: {}", p.msg), case)),
        Ok((t, Err(c))) => out.push(Viol::new("codec-invalid-char", format!("to_base62 produced {:?} which from_base62 rejects at {:?}", t, c), case)),
        Ok((t, Ok(back))) => {
            if !t.chars().all(|c| c.is_ascii_alphanumeric()) {
                out.push(Viol::new("codec-alphabet", format!("non-alphanumeric text {:?}", t), case.clone()));
            }
            if strip(&back) != strip(data) {
                out.push(Viol::new(
                    "codec-roundtrip",
                    format!("from_base62(to_base62(x)) != x as a number: {} -> {:?} -> {}", hex(data), t, hex(&back)),
                    case.clone(),
                ));
            }
            // bytewise once left-padded to the fixed width
            if back.len() > data.len() {
                out.push(Viol::new("codec-longer", format!("decoded value longer than input: {} -> {}", hex(data), hex(&back)), case));
            }
            if !data.is_empty() && data[0] != 0 {
                ctx.nontrivial(&("codec", data));
            }
        }
    }
    out
}

pub fn password_dict() -> Vec<String> {
    let mut v: Vec<String> = vec![
        "".into(),
        "test".into(),
        "test123".into(),
        " ".into(),
        "pässwörd".into(),
        "密码".into(),
        "\u{1F511}\u{1F512}".into(),
        "a".repeat(1024),
        "correct horse battery staple".into(),
        "\0".into(),
        "line\nbreak".into(),
    ];
    for i in 0..300 {
        v.push(format!("dict-{}-{:x}", i, (i as u64).wrapping_mul(0x9e3779b97f4a7c15)));
    }
    v
}

pub fn run(ctx: &Ctx) {
    ctx.rule(
        "cases: (a) 32-byte seeds with 0..=4 leading zero bytes + random rest, random seeds, and seeds searched so \
         that the PUBLIC key starts with a zero byte; (b) passwords from a dictionary (empty, unicode, 1 KiB, 300 \
         generated), each derived twice, configured in two node instances and handshaken, plus a different-password \
         pair; (c) base62 codec on all byte strings of length <= 2 and random strings <= 64. Non-trivial = seed or \
         public key with a leading zero byte / password pair with distinct passwords / codec input without leading \
         zero; distinct = hash of the input.",
    );
    ctx.assume("the harness mirror of key generation (seed -> base62 texts) is itself checked against generate_keypair(Some(pw)) for every password");

    // (c) codec: exhaustive length <= 2, random <= 64
    ctx.par_range(1 + 256 + 65536, |_, i| {
        let data: Vec<u8> = if i == 0 {
            vec![]
        } else if i <= 256 {
            vec![(i - 1) as u8]
        } else {
            let x = i - 257;
            vec![(x >> 8) as u8, (x & 0xff) as u8]
        };
        let v = check_codec(ctx, &data);
        ctx.report(v);
    });
    ctx.subspace("base62 codec: all byte strings of length <= 2", 1 + 256 + 65536, true);
    let ncodec: u64 = ctx.tier.pick(20_000, 400_000);
    ctx.par_range_chunked(ncodec, 1000, |_, i| {
        let mut rng = ctx.rng("codec", i as usize);
        let len = 1 + (rng.next_u32() % 64) as usize;
        let mut d = vec![0u8; len];
        rng.fill_bytes(&mut d);
        let z = (rng.next_u32() % 4) as usize;
        for b in d.iter_mut().take(z.min(len)) {
            if i % 3 == 0 {
                *b = 0;
            }
        }
        let v = check_codec(ctx, &d);
        if i < 2 {
            ctx.sample("codec", || json!({"bytes": hex(&d), "text": to_base62(&d)}));
        }
        ctx.report(v);
    });
    ctx.subspace("base62 codec: random byte strings of length 1..=64", ncodec, false);

    // (a) seeds
    let per_pattern: u64 = ctx.tier.pick(1_000, 8_000);
    ctx.par_range(5 * per_pattern, |_, i| {
        let lz = (i / per_pattern) as usize;
        let mut rng = ctx.rng("seed-lz", i as usize);
        let mut seed = [0u8; 32];
        rng.fill_bytes(&mut seed);
        for b in seed.iter_mut().take(lz) {
            *b = 0;
        }
        if lz < 32 && seed[lz] == 0 {
            seed[lz] = 1;
        }
        let v = check_seed(ctx, &seed);
        if i % per_pattern == 0 {
            ctx.sample("seed", || json!({"seed": hex(&seed), "private_text": to_base62(&seed)}));
        }
        ctx.report(v);
    });
    ctx.subspace("seeds with k leading zero bytes, k = 0..=4, random remainder", 5 * per_pattern, false);
    let nrand: u64 = ctx.tier.pick(60_000, 300_000);
    ctx.par_range_chunked(nrand, 500, |_, i| {
        let mut rng = ctx.rng("seed-rand", i as usize);
        let mut seed = [0u8; 32];
        rng.fill_bytes(&mut seed);
        let v = check_seed(ctx, &seed);
        ctx.report(v);
    });
    ctx.subspace("random seeds (about 1/256 have a public key starting with a zero byte)", nrand, false);

    // (a') the random branch of key generation itself (what `genkey` without a password and the wizard print): every
    // drawn pair must be a pair. The draws come from SystemRandom and cannot be replayed; the printed texts are the
    // reproducible unit (replay case = the pair).
    let ndraw: u64 = ctx.tier.pick(20_000, 200_000);
    ctx.par_range_chunked(ndraw, 250, |_, i| {
        let (privt, pubt) = match catch(|| Crypto::generate_keypair(None)) {
            Ok(p) => p,
            Err(p) => {
                ctx.violation(Viol::new(format!("generate-keypair-{}", p.sig()), p.msg, json!({"kind": "draw"})));
                return;
            }
        };
        let v = check_pair(ctx, &privt, &pubt, "random key generation");
        if i < 2 {
            ctx.sample("random-pair", || json!({"public": pubt}));
        }
        ctx.report(v);
    });
    ctx.subspace("pairs drawn by the random branch of generate_keypair (about 2/256 have a text form that lost a leading zero byte)", ndraw, false);

    // (b) passwords
    let dict = password_dict();
    ctx.par_range(dict.len() as u64, |_, i| {
        let i = i as usize;
        let v = check_password(ctx, &dict[i], &dict[(i + 1) % dict.len()]);
        if i < 3 {
            ctx.sample("password", || json!({"password": dict[i], "keys": Crypto::generate_keypair(Some(&dict[i]))}));
        }
        ctx.report(v);
    });
    ctx.subspace("password dictionary (empty, unicode, 1 KiB, 300 generated)", dict.len() as u64, true);

    // proptest passwords (shrinking)
    let npw: u32 = ctx.tier.pick(300, 5000);
    ctx.proptest("pt-password", npw, || ("\\PC{0,24}", "\\PC{0,24}"), |(a, b)| check_password(ctx, a, b));
    ctx.subspace("proptest: random unicode passwords (pairs)", npw as u64, false);
}

pub fn replay(ctx: &Ctx, case: &Value) {
    let v = match case["kind"].as_str() {
        Some("seed") => {
            let b = unhex(case["seed"].as_str().unwrap_or(""));
            let mut seed = [0u8; 32];
            if b.len() == 32 {
                seed.copy_from_slice(&b);
            }
            check_seed(ctx, &seed)
        }
        Some("pair") => check_pair(ctx, case["private"].as_str().unwrap_or(""), case["public"].as_str().unwrap_or(""), "saved pair"),
        Some("password") => check_password(ctx, case["password"].as_str().unwrap_or(""), case["other"].as_str().unwrap_or("")),
        Some("codec") => check_codec(ctx, &unhex(case["bytes"].as_str().unwrap_or(""))),
        _ => vec![],
    };
    ctx.report(v);
}
