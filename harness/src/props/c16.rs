//! C16 - wire codecs round-trip, skip unknown parts, and are total.
//! Oracles: decode(encode(x)) == normalise(x); decode(ref_encode_with_unknown_parts(x)) == normalise(x);
//! real encoder output == reference encoder output (differential); decoders under panic capture
//! with an allocation watch.

use crate::engine::{hex, unhex, Ctx, Viol};
use crate::sim::{catch, with_alloc_watch};
use proptest::prelude::*;
use ring::signature::{Ed25519KeyPair, KeyPair};
use serde::{Deserialize, Serialize};
use serde_json::{json, Value};
use smallvec::SmallVec;
use std::io::Cursor;
use std::net::{Ipv4Addr, Ipv6Addr, SocketAddr, SocketAddrV4, SocketAddrV6};
use vpncloud::crypto::verif::{InitMsg, RotationMessage};
use vpncloud::crypto::{Algorithms, EcdhPublicKey};
use vpncloud::messages::{NodeInfo, PeerInfo};
use vpncloud::types::{Address, Range};
use vpncloud::util::MsgBuffer;

pub const MAX_ALLOC: usize = 256 * 1024;

// ---------------- NodeInfo ----------------

#[derive(Clone, Debug, Serialize, Deserialize, PartialEq)]
pub struct NiDesc {
    pub node_id: [u8; 16],
    /// (node id or none, addresses as text)
    pub peers: Vec<(Option<[u8; 16]>, Vec<String>)>,
    /// (address bytes, prefix length)
    pub claims: Vec<(Vec<u8>, u8)>,
    pub peer_timeout: Option<u16>,
    pub addrs: Vec<String>,
    /// unknown parts: (insert before known part number k (0..=5), tag, content)
    pub unknown: Vec<(u8, u8, Vec<u8>)>,
}

fn parse_addrs(v: &[String]) -> SmallVec<[SocketAddr; 4]> {
    v.iter().filter_map(|s| s.parse().ok()).collect()
}

pub fn to_nodeinfo(d: &NiDesc) -> NodeInfo {
    NodeInfo {
        node_id: d.node_id,
        peers: d.peers.iter().map(|(id, a)| PeerInfo { node_id: *id, addrs: parse_addrs(a) }).collect(),
        claims: d
            .claims
            .iter()
            .map(|(b, p)| {
                let mut data = [0u8; 16];
                let n = b.len().min(16);
                data[..n].copy_from_slice(&b[..n]);
                Range { base: Address { data, len: n as u8 }, prefix_len: *p }
            })
            .collect(),
        peer_timeout: d.peer_timeout,
        addrs: parse_addrs(&d.addrs),
    }
}

/// the format's normalisation: at most seven addresses per family per entry, IPv6 before IPv4,
/// scope and flow information dropped
fn norm_addrs(a: &[SocketAddr]) -> SmallVec<[SocketAddr; 4]> {
    let mut out: SmallVec<[SocketAddr; 4]> = SmallVec::new();
    for x in a.iter().filter_map(|x| if let SocketAddr::V6(v) = x { Some(v) } else { None }).take(7) {
        out.push(SocketAddr::V6(SocketAddrV6::new(*x.ip(), x.port(), 0, 0)));
    }
    for x in a.iter().filter(|x| x.is_ipv4()).take(7) {
        out.push(*x);
    }
    out
}

pub fn normalise(n: &NodeInfo) -> NodeInfo {
    NodeInfo {
        node_id: n.node_id,
        peers: n.peers.iter().map(|p| PeerInfo { node_id: p.node_id, addrs: norm_addrs(&p.addrs) }).collect(),
        claims: n.claims.clone(),
        peer_timeout: n.peer_timeout,
        addrs: norm_addrs(&n.addrs),
    }
}

fn ref_addr_list(out: &mut Vec<u8>, a: &[SocketAddr], flag_extra: u8, node_id: Option<&[u8; 16]>) {
    let n = norm_addrs(a);
    let v6: Vec<&SocketAddr> = n.iter().filter(|x| x.is_ipv6()).collect();
    let v4: Vec<&SocketAddr> = n.iter().filter(|x| x.is_ipv4()).collect();
    out.push(flag_extra | ((v6.len() as u8) << 3) | v4.len() as u8);
    if let Some(id) = node_id {
        out.extend_from_slice(id);
    }
    for x in v6 {
        if let SocketAddr::V6(v) = x {
            out.extend_from_slice(&v.ip().octets());
            out.extend_from_slice(&v.port().to_be_bytes());
        }
    }
    for x in v4 {
        if let SocketAddr::V4(v) = x {
            out.extend_from_slice(&v.ip().octets());
            out.extend_from_slice(&v.port().to_be_bytes());
        }
    }
}

fn part(out: &mut Vec<u8>, tag: u8, body: &[u8]) {
    out.push(tag);
    out.extend_from_slice(&(body.len() as u16).to_be_bytes());
    out.extend_from_slice(body);
}

/// Hand-written reference encoder of the node-information format (TLV parts: 4 node id, 1 peers,
/// 2 claims, 3 peer timeout, 5 addresses, 0 end), able to insert unknown parts anywhere.
pub fn ref_encode_nodeinfo(d: &NiDesc, with_unknown: bool) -> Vec<u8> {
    let n = to_nodeinfo(d);
    let mut out = vec![];
    let mut known: Vec<(u8, Vec<u8>)> = vec![];
    known.push((4, n.node_id.to_vec()));
    let mut b = vec![];
    for p in &n.peers {
        ref_addr_list(&mut b, &p.addrs, if p.node_id.is_some() { 0x80 } else { 0 }, p.node_id.as_ref());
    }
    known.push((1, b));
    let mut b = vec![];
    for c in &n.claims {
        b.push(c.base.len);
        b.extend_from_slice(&c.base.data[..c.base.len as usize]);
        b.push(c.prefix_len);
    }
    known.push((2, b));
    if let Some(t) = n.peer_timeout {
        known.push((3, t.to_be_bytes().to_vec()));
    }
    let mut b = vec![];
    ref_addr_list(&mut b, &n.addrs, 0, None);
    known.push((5, b));
    for (k, (tag, body)) in known.iter().enumerate() {
        if with_unknown {
            for (pos, utag, ubody) in &d.unknown {
                if *pos as usize == k {
                    part(&mut out, unknown_tag(*utag), ubody);
                }
            }
        }
        part(&mut out, *tag, body);
    }
    if with_unknown {
        for (pos, utag, ubody) in &d.unknown {
            if *pos as usize >= known.len() {
                part(&mut out, unknown_tag(*utag), ubody);
            }
        }
    }
    out.push(0);
    out
}

fn unknown_tag(t: u8) -> u8 {
    // tags 1..=5 are defined, 0 ends the message
    6 + (t % 250)
}

pub fn check_nodeinfo(ctx: &Ctx, d: &NiDesc) -> Vec<Viol> {
    ctx.eval();
    let cj = || json!({"kind": "nodeinfo", "desc": serde_json::to_value(d).unwrap()});
    let mut out = vec![];
    let info = to_nodeinfo(d);
    let expect = normalise(&info);
    // real encoder
    let enc = catch(|| {
        let mut buf = Box::new(MsgBuffer::new(100));
        info.encode(&mut buf);
        buf.message().to_vec()
    });
    let bytes = match enc {
        Ok(b) => b,
        Err(p) => {
            out.push(Viol::new(format!("nodeinfo-encode-{}", p.sig()), format!("NodeInfo::encode panicked: {}", p.msg), cj()));
            return out;
        }
    };
    let refb = ref_encode_nodeinfo(d, false);
    if bytes != refb {
        out.push(Viol::new(
            "nodeinfo-encoder-differs-from-format",
            format!("real encoder output differs from the reference encoding: real {} ref {}", hex(&bytes), hex(&refb)),
            cj(),
        ));
    }
    // decode(encode(x)) == normalise(x)
    match crate::engine::hang_guard("nodeinfo-decode", &bytes, &[], hang_case, || catch(|| NodeInfo::decode(Cursor::new(&bytes[..])))) {
        Err(p) => out.push(Viol::new(format!("nodeinfo-decode-{}", p.sig()), format!("decode panicked: {}", p.msg), cj())),
        Ok(Err(e)) => out.push(Viol::new("nodeinfo-roundtrip-rejected", format!("decode(encode(x)) failed: {}", e), cj())),
        Ok(Ok(back)) => {
            if back != expect {
                out.push(Viol::new(
                    "nodeinfo-roundtrip-mismatch",
                    format!("decode(encode(x)) != normalise(x): expected {:?}, got {:?}", expect, back),
                    cj(),
                ));
            }
        }
    }
    // unknown parts are skipped
    if !d.unknown.is_empty() {
        let ub = ref_encode_nodeinfo(d, true);
        match crate::engine::hang_guard("nodeinfo-decode", &ub, &[], hang_case, || catch(|| NodeInfo::decode(Cursor::new(&ub[..])))) {
            Err(p) => out.push(Viol::new(format!("nodeinfo-decode-{}", p.sig()), format!("decode panicked: {}", p.msg), cj())),
            Ok(Err(e)) => out.push(Viol::new(
                "nodeinfo-unknown-part-not-skipped",
                format!("message with unknown parts rejected: {} ({})", e, hex(&ub)),
                cj(),
            )),
            Ok(Ok(back)) => {
                if back != expect {
                    out.push(Viol::new(
                        "nodeinfo-unknown-part-changes-result",
                        format!("unknown parts changed the decoded value: expected {:?}, got {:?}", expect, back),
                        cj(),
                    ));
                }
            }
        }
        ctx.class("nodeinfo:with-unknown-parts");
    }
    let over7 = info.peers.iter().any(|p| p.addrs.iter().filter(|a| a.is_ipv4()).count() > 7 || p.addrs.iter().filter(|a| a.is_ipv6()).count() > 7);
    if over7 {
        ctx.class("nodeinfo:more-than-7-addresses");
    }
    if !info.peers.is_empty() || !info.claims.is_empty() || !info.addrs.is_empty() {
        ctx.nontrivial(&("ni", hex(&bytes), &d.unknown));
    }
    out
}

/// decoder totality on arbitrary bytes (value or error; no panic, no oversized allocation)
fn hang_case(kind: &str, bytes: &[u8], aux: &[u8]) -> Value {
    json!({"kind": "decode", "decoder": kind.strip_suffix("-decode").unwrap_or(kind), "bytes": hex(bytes), "trusted": aux.chunks(32).map(hex).collect::<Vec<_>>()})
}

pub fn check_decode_bytes(ctx: &Ctx, which: &str, bytes: &[u8], trusted: &[[u8; 32]]) -> Vec<Viol> {
    ctx.eval();
    let cj = || json!({"kind": "decode", "decoder": which, "bytes": hex(bytes), "trusted": trusted.iter().map(|k| hex(k)).collect::<Vec<_>>()});
    let kind: &'static str = match which {
        "nodeinfo" => "nodeinfo-decode",
        "rotation" => "rotation-decode",
        _ => "init-decode",
    };
    let aux: Vec<u8> = trusted.iter().flat_map(|k| k.iter().copied()).collect();
    let (r, max) = crate::engine::hang_guard(kind, bytes, &aux, hang_case, || with_alloc_watch(|| {
        catch(|| match which {
            "nodeinfo" => NodeInfo::decode(Cursor::new(bytes)).is_ok(),
            "rotation" => RotationMessage::read_from(Cursor::new(bytes)).is_ok(),
            _ => {
                // handshake parser sees the message followed by the stale receive buffer (64 KiB) ...
                let mut buf = vec![0xa5u8; bytes.len() + 65536];
                buf[..bytes.len()].copy_from_slice(bytes);
                let a = InitMsg::verif_read_from(&buf, trusted).is_ok();
                // ... or, for a datagram that fills the receive buffer to its end, nothing behind it
                let b = InitMsg::verif_read_from(bytes, trusted).is_ok();
                a || b
            }
        })
    }));
    let mut out = vec![];
    match r {
        Err(p) => out.push(Viol::new(
            format!("{}-decode-{}", which, p.sig()),
            format!("{} decoder panicked on {} bytes: {} at {}", which, bytes.len(), p.msg, p.loc),
            cj(),
        )),
        Ok(ok) => {
            ctx.class(&format!("decode:{}:{}", which, if ok { "value" } else { "error" }));
        }
    }
    // the harness copy (len + 64 KiB) is itself below the limit
    // "oversized" = out of proportion to the input (a length field turned into an allocation). The in-memory form of
    // a decoded value is legitimately larger than its wire form by a constant factor (an empty peer entry is 1 byte on
    // the wire and 168 bytes in memory, so 2000 of them need a 336 KiB vector): the limit is 256 KiB or 512 bytes per
    // input byte, whichever is larger.
    if max > MAX_ALLOC.max(bytes.len() * 512) {
        out.push(Viol::new(
            format!("{}-decode-oversized-allocation", which),
            format!("{} decoder requested {} bytes at once for a {}-byte input", which, max, bytes.len()),
            cj(),
        ));
    }
    out
}

// ---------------- handshake messages ----------------

#[derive(Clone, Debug, Serialize, Deserialize, PartialEq)]
pub struct InitDesc {
    pub stage: u8,
    pub hash: [u8; 20],
    pub ecdh: Vec<u8>,
    /// (algorithm id 0..=3, speed bits)
    pub algos: Vec<(u8, u32)>,
    pub payload: Vec<u8>,
    pub seed: [u8; 32],
    /// unknown parts: (insert before known part k, tag, content)
    pub unknown: Vec<(u8, u8, Vec<u8>)>,
}

fn algo_of(id: u8) -> &'static ring::aead::Algorithm {
    match id {
        1 => &ring::aead::AES_128_GCM,
        2 => &ring::aead::AES_256_GCM,
        _ => &ring::aead::CHACHA20_POLY1305,
    }
}

fn id_of(a: &'static ring::aead::Algorithm) -> u8 {
    if a == &ring::aead::AES_128_GCM {
        1
    } else if a == &ring::aead::AES_256_GCM {
        2
    } else {
        3
    }
}

fn mk_payload(b: &[u8]) -> MsgBuffer {
    let mut m = MsgBuffer::new(0);
    m.set_length(b.len());
    m.message_mut().copy_from_slice(b);
    m
}

fn mk_algos(list: &[(u8, u32)]) -> Algorithms {
    Algorithms {
        algorithm_speeds: list.iter().filter(|(id, _)| *id != 0).map(|(id, s)| (algo_of(*id), f32::from_bits(*s))).collect(),
        allow_unencrypted: list.iter().any(|(id, _)| *id == 0),
    }
}

pub fn to_initmsg(d: &InitDesc) -> InitMsg {
    let key = || EcdhPublicKey::new(&ring::agreement::X25519, d.ecdh.iter().copied().collect());
    match d.stage {
        1 => InitMsg::Ping { salted_node_id_hash: d.hash, ecdh_public_key: key(), algorithms: mk_algos(&d.algos) },
        2 => InitMsg::Pong { salted_node_id_hash: d.hash, ecdh_public_key: key(), algorithms: mk_algos(&d.algos), encrypted_payload: mk_payload(&d.payload) },
        _ => InitMsg::Peng { salted_node_id_hash: d.hash, encrypted_payload: mk_payload(&d.payload) },
    }
}

pub fn key_selector(pk: &[u8; 32], salt: &[u8; 4]) -> [u8; 4] {
    let mut data = [0u8; 36];
    data[..32].copy_from_slice(pk);
    data[32..].copy_from_slice(salt);
    let h = ring::digest::digest(&ring::digest::SHA256, &data);
    let mut r = [0u8; 4];
    r.copy_from_slice(&h.as_ref()[..4]);
    r
}

/// Reference encoder of handshake messages (signs with the given key pair).
/// The encoder always writes "plain" first with speed +inf, then the ciphers in list order.
pub fn ref_encode_init(d: &InitDesc, kp: &Ed25519KeyPair, salt: [u8; 4], with_unknown: bool) -> Vec<u8> {
    let mut pk = [0u8; 32];
    pk.copy_from_slice(kp.public_key().as_ref());
    let mut out = vec![];
    out.extend_from_slice(&salt);
    out.extend_from_slice(&key_selector(&pk, &salt));
    let mut known: Vec<(u8, Vec<u8>)> = vec![];
    known.push((1, vec![d.stage]));
    known.push((2, d.hash.to_vec()));
    if d.stage == 1 || d.stage == 2 {
        known.push((3, d.ecdh.clone()));
        let mut b = vec![];
        if d.algos.iter().any(|(id, _)| *id == 0) {
            b.push(0);
            b.extend_from_slice(&f32::INFINITY.to_be_bytes());
        }
        for (id, s) in d.algos.iter().filter(|(id, _)| *id != 0) {
            b.push(*id);
            b.extend_from_slice(&s.to_be_bytes());
        }
        known.push((4, b));
    }
    if d.stage == 2 || d.stage == 3 {
        known.push((5, d.payload.clone()));
    }
    for (k, (tag, body)) in known.iter().enumerate() {
        if with_unknown {
            for (pos, utag, ubody) in &d.unknown {
                if *pos as usize == k {
                    part(&mut out, unknown_tag(*utag), ubody);
                }
            }
        }
        part(&mut out, *tag, body);
    }
    if with_unknown {
        for (pos, utag, ubody) in &d.unknown {
            if *pos as usize >= known.len() {
                part(&mut out, unknown_tag(*utag), ubody);
            }
        }
    }
    out.push(0);
    let sig = kp.sign(&out);
    out.push(sig.as_ref().len() as u8);
    out.extend_from_slice(sig.as_ref());
    out
}

pub fn init_fields(m: &InitMsg) -> (u8, [u8; 20], Option<Vec<u8>>, Option<(bool, Vec<(u8, u32)>)>, Option<Vec<u8>>) {
    match m {
        InitMsg::Ping { salted_node_id_hash, ecdh_public_key, algorithms } => (
            1,
            *salted_node_id_hash,
            Some(ecdh_public_key.bytes().to_vec()),
            Some((algorithms.allow_unencrypted, algorithms.algorithm_speeds.iter().map(|(a, s)| (id_of(a), s.to_bits())).collect())),
            None,
        ),
        InitMsg::Pong { salted_node_id_hash, ecdh_public_key, algorithms, encrypted_payload } => (
            2,
            *salted_node_id_hash,
            Some(ecdh_public_key.bytes().to_vec()),
            Some((algorithms.allow_unencrypted, algorithms.algorithm_speeds.iter().map(|(a, s)| (id_of(a), s.to_bits())).collect())),
            Some(encrypted_payload.message().to_vec()),
        ),
        InitMsg::Peng { salted_node_id_hash, encrypted_payload } => (3, *salted_node_id_hash, None, None, Some(encrypted_payload.message().to_vec())),
    }
}

pub fn check_init(ctx: &Ctx, d: &InitDesc) -> Vec<Viol> {
    ctx.eval();
    let cj = || json!({"kind": "init", "desc": serde_json::to_value(d).unwrap()});
    let mut out = vec![];
    let kp = Ed25519KeyPair::from_seed_unchecked(&d.seed).expect("seed");
    let mut pk = [0u8; 32];
    pk.copy_from_slice(kp.public_key().as_ref());
    let msg = to_initmsg(d);
    let want = init_fields(&msg);
    let enc = catch(|| {
        let mut buf = vec![0u8; 70000];
        let n = msg.verif_write_to(&mut buf, &kp).map_err(|e| e.to_string())?;
        buf.truncate(n);
        Ok::<_, String>(buf)
    });
    let bytes = match enc {
        Err(p) => {
            out.push(Viol::new(format!("init-encode-{}", p.sig()), format!("InitMsg::write_to panicked: {}", p.msg), cj()));
            return out;
        }
        Ok(Err(e)) => {
            out.push(Viol::new("init-encode-error", format!("write_to failed: {}", e), cj()));
            return out;
        }
        Ok(Ok(b)) => b,
    };
    // differential against the format (same salt => identical bytes, Ed25519 is deterministic)
    let mut salt = [0u8; 4];
    salt.copy_from_slice(&bytes[..4]);
    let refb = ref_encode_init(d, &kp, salt, false);
    if refb != bytes {
        out.push(Viol::new(
            "init-encoder-differs-from-format",
            format!("real handshake encoder differs from the reference encoding: real {} ref {}", hex(&bytes), hex(&refb)),
            cj(),
        ));
    }
    let check_back = |wire: &[u8], label: &str, out: &mut Vec<Viol>| {
        let mut buf = vec![0x5au8; wire.len() + 65536];
        buf[..wire.len()].copy_from_slice(wire);
        match crate::engine::hang_guard("init-decode", &buf, &pk, hang_case, || catch(|| InitMsg::verif_read_from(&buf, &[[7u8; 32], pk]))) {
            Err(p) => out.push(Viol::new(format!("init-decode-{}", p.sig()), format!("read_from panicked: {}", p.msg), cj())),
            Ok(Err(e)) => out.push(Viol::new(format!("init-{}-rejected", label), format!("{}: genuine message rejected: {}", label, e), cj())),
            Ok(Ok((back, key))) => {
                if key != pk {
                    out.push(Viol::new("init-wrong-key", format!("{}: verified against another key", label), cj()));
                }
                if init_fields(&back) != want {
                    out.push(Viol::new(
                        format!("init-{}-mismatch", label),
                        format!("{}: decoded {:?}, expected {:?}", label, init_fields(&back), want),
                        cj(),
                    ));
                }
            }
        }
    };
    check_back(&bytes, "roundtrip", &mut out);
    if !d.unknown.is_empty() {
        let ub = ref_encode_init(d, &kp, salt, true);
        check_back(&ub, "unknown-parts", &mut out);
        ctx.class("init:with-unknown-parts");
    }
    ctx.class(&format!("init:stage{}", d.stage));
    ctx.nontrivial(&("init", hex(&bytes[8..bytes.len() - 65]), &d.unknown));
    out
}

// ---------------- rotation messages ----------------

pub fn check_rotation(ctx: &Ctx, id: u64, propose: &[u8], confirm: &Option<Vec<u8>>) -> Vec<Viol> {
    ctx.eval();
    let cj = || json!({"kind": "rotation", "id": id, "propose": hex(propose), "confirm": confirm.as_ref().map(|c| hex(c))});
    let mut out = vec![];
    let r = catch(|| {
        let m = RotationMessage::verif_new(id, propose, confirm.as_deref());
        let mut buf = vec![];
        m.write_to(&mut buf).map_err(|e| e.to_string())?;
        let back = RotationMessage::read_from(Cursor::new(&buf[..])).map_err(|e| e.to_string())?;
        Ok::<_, String>((buf, back.verif_fields()))
    });
    match r {
        Err(p) => out.push(Viol::new(format!("rotation-{}", p.sig()), format!("rotation codec panicked: {}", p.msg), cj())),
        Ok(Err(e)) => out.push(Viol::new("rotation-roundtrip-rejected", format!("decode(encode(x)) failed: {}", e), cj())),
        Ok(Ok((buf, (bid, bp, bc)))) => {
            // reference encoding: id u64 BE, len u8 + propose, len u8 + confirm (0 = none)
            let mut refb = id.to_be_bytes().to_vec();
            refb.push(propose.len() as u8);
            refb.extend_from_slice(propose);
            match confirm {
                Some(c) => {
                    refb.push(c.len() as u8);
                    refb.extend_from_slice(c);
                }
                None => refb.push(0),
            }
            if buf != refb {
                out.push(Viol::new("rotation-encoder-differs-from-format", format!("real {} ref {}", hex(&buf), hex(&refb)), cj()));
            }
            // normalisation: an empty confirmation key means "none"
            let want_c = match confirm {
                Some(c) if !c.is_empty() => Some(c.clone()),
                _ => None,
            };
            if bid != id || bp != propose || bc != want_c {
                out.push(Viol::new("rotation-roundtrip-mismatch", format!("decoded ({}, {}, {:?})", bid, hex(&bp), bc.map(|c| hex(&c))), cj()));
            }
            if confirm.is_some() {
                ctx.nontrivial(&("rot", id, propose, confirm));
            }
        }
    }
    out
}

// ---------------- generators ----------------

fn sockaddr_strategy() -> impl Strategy<Value = String> {
    prop_oneof![
        (any::<[u8; 4]>(), any::<u16>()).prop_map(|(ip, p)| SocketAddr::V4(SocketAddrV4::new(Ipv4Addr::from(ip), p)).to_string()),
        (any::<[u8; 16]>(), any::<u16>()).prop_map(|(ip, p)| SocketAddr::V6(SocketAddrV6::new(Ipv6Addr::from(ip), p, 0, 0)).to_string()),
    ]
}

fn addrs_strategy() -> impl Strategy<Value = Vec<String>> {
    // 0..=9 addresses per family, interleaved
    (proptest::collection::vec(sockaddr_strategy(), 0..19)).prop_map(|v| {
        let mut n4 = 0;
        let mut n6 = 0;
        v.into_iter()
            .filter(|s| {
                if s.starts_with('[') {
                    n6 += 1;
                    n6 <= 9
                } else {
                    n4 += 1;
                    n4 <= 9
                }
            })
            .collect()
    })
}

fn unknown_strategy() -> impl Strategy<Value = Vec<(u8, u8, Vec<u8>)>> {
    // bodies of every size class: a skip routine that works in chunks or through a bounded scratch buffer only
    // shows its seams at and beyond its chunk size
    let body = prop_oneof![
        6 => proptest::collection::vec(any::<u8>(), 0..40),
        2 => (prop_oneof![Just(127usize), Just(255), Just(256), Just(511), Just(1023), Just(4095)], 0usize..3, any::<u8>(), any::<u8>())
            .prop_map(|(base, d, a, b)| (0..base + d).map(|i| if i % 2 == 0 { a } else { b.wrapping_add(i as u8) }).collect::<Vec<u8>>()),
        1 => (256usize..6000, any::<u8>()).prop_map(|(n, a)| (0..n).map(|i| a.wrapping_mul(i as u8 | 1)).collect::<Vec<u8>>()),
    ];
    proptest::collection::vec((0u8..7, any::<u8>(), body), 0..4)
}

pub fn nodeinfo_strategy() -> impl Strategy<Value = NiDesc> {
    (
        any::<[u8; 16]>(),
        proptest::collection::vec((proptest::option::of(any::<[u8; 16]>()), addrs_strategy()), 0..=20),
        proptest::collection::vec((proptest::collection::vec(any::<u8>(), 0..=16), any::<u8>()), 0..12),
        proptest::option::of(any::<u16>()),
        addrs_strategy(),
        unknown_strategy(),
    )
        .prop_map(|(node_id, peers, claims, peer_timeout, addrs, unknown)| NiDesc { node_id, peers, claims, peer_timeout, addrs, unknown })
}

pub fn init_strategy() -> impl Strategy<Value = InitDesc> {
    (
        1u8..=3,
        any::<[u8; 20]>(),
        prop_oneof![Just(32usize), 0usize..120].prop_flat_map(|n| proptest::collection::vec(any::<u8>(), n)),
        proptest::collection::vec((0u8..=3, prop_oneof![any::<u32>(), Just(0u32), Just(0x7f800000), Just(0x7fc00000), Just(600f32.to_bits())]), 0..6),
        proptest::collection::vec(any::<u8>(), 0..300),
        any::<[u8; 32]>(),
        unknown_strategy(),
    )
        .prop_map(|(stage, hash, ecdh, algos, payload, seed, unknown)| InitDesc { stage, hash, ecdh, algos, payload, seed, unknown })
}

/// Mutations of a valid encoding for decoder totality: truncations, substitutions at tag/length positions.
fn tlv_positions(bytes: &[u8], start: usize) -> Vec<usize> {
    let mut pos = start;
    let mut v = vec![];
    while pos < bytes.len() {
        v.push(pos);
        if bytes[pos] == 0 {
            if pos + 1 < bytes.len() {
                v.push(pos + 1); // signature length (handshake)
            }
            break;
        }
        if pos + 2 >= bytes.len() {
            break;
        }
        v.push(pos + 1);
        v.push(pos + 2);
        let len = ((bytes[pos + 1] as usize) << 8) | bytes[pos + 2] as usize;
        pos += 3 + len;
    }
    v
}

pub fn run(ctx: &Ctx) {
    ctx.rule(
        "codec cases: generated NodeInfo (0..=20 peers, 0..=9 addresses per family, claims with address length \
         0..=16 and prefix 0..=255, optional timeout), handshake messages (all three stages, key lengths 0..120, \
         cipher lists with arbitrary speed bit patterns incl. NaN/inf, payload 0..300) and rotation messages, each \
         through the real encoder, a hand-written reference encoder (byte-differential) and the real decoder, plus \
         unknown parts inserted at every position. Decoder cases: every truncation and every byte substitution at \
         tag/length positions of valid encodings, random strings <= 2 KiB (handshake parser: + 64 KiB stale tail), \
         under panic capture with an allocation watch (limit 256 KiB per request). Non-trivial = message with at \
         least one peer/claim/address (NodeInfo), any handshake message, rotation message with confirmation; \
         distinct = hash of the encoding.",
    );

    // (1) NodeInfo proptest
    let n1: u32 = ctx.tier.pick(30_000, 300_000);
    ctx.proptest("pt-nodeinfo", n1, nodeinfo_strategy, |d| {
        let v = check_nodeinfo(ctx, d);
        ctx.sample("nodeinfo", || serde_json::to_value(d).unwrap());
        v
    });
    ctx.subspace("proptest NodeInfo round trip / reference differential / unknown parts", n1 as u64, false);

    // (1b) exhaustive small scope: address counts 0..=9 x 0..=9 for own address list and one peer
    ctx.par_range(100, |_, i| {
        let (n4, n6) = ((i / 10) as usize, (i % 10) as usize);
        let mut addrs = vec![];
        for k in 0..n4.max(n6) {
            if k < n6 {
                addrs.push(format!("[2001:db8::{:x}]:{}", k + 1, 4000 + k));
            }
            if k < n4 {
                addrs.push(format!("10.0.0.{}:{}", k + 1, 3000 + k));
            }
        }
        for with_id in [false, true] {
            let d = NiDesc {
                node_id: [i as u8; 16],
                peers: vec![(if with_id { Some([9; 16]) } else { None }, addrs.clone())],
                claims: vec![(vec![10, 0, 0, 0], 8)],
                peer_timeout: Some(300),
                addrs: addrs.clone(),
                unknown: vec![(i as u8 % 7, i as u8, vec![1, 2, 3])],
            };
            let v = check_nodeinfo(ctx, &d);
            ctx.report(v);
        }
    });
    ctx.subspace("address counts 0..=9 IPv4 x 0..=9 IPv6, with and without node id, own list and peer entry", 200, true);

    // (1b') one unknown part of every size class at every position, three fill patterns (incl. bytes that look like parts)
    let sizes: Vec<usize> = vec![0, 1, 2, 3, 63, 64, 65, 127, 128, 129, 255, 256, 257, 258, 300, 511, 512, 513, 1000, 1023, 1024, 1025, 2047, 2048, 2049, 4095, 4096, 4097, 8192, 16384, 20000];
    let ns = sizes.len() as u64;
    ctx.par_range(ns * 7 * 3, |_, i| {
        let size = sizes[(i % ns) as usize];
        let pos = ((i / ns) % 7) as u8;
        let fill = i / ns / 7;
        let body: Vec<u8> = (0..size)
            .map(|k| match fill {
                0 => 0u8,
                1 => (k * 31 + 7) as u8,
                // looks like a sequence of well-formed parts: tag 1..5, length 1, one byte
                _ => [1u8 + (k / 4 % 5) as u8, 0, 1, 0x55][k % 4],
            })
            .collect();
        let d = NiDesc {
            node_id: [3; 16],
            peers: vec![(Some([9; 16]), vec!["10.0.0.1:3210".into()])],
            claims: vec![(vec![10, 0, 0, 0], 8), (vec![2, 0, 0, 0, 0, 1], 48)],
            peer_timeout: Some(300),
            addrs: vec!["192.168.1.1:3210".into(), "[2001:db8::1]:3210".into()],
            unknown: vec![(pos, 40 + fill as u8, body)],
        };
        let v = check_nodeinfo(ctx, &d);
        ctx.report(v);
    });
    ctx.subspace("one unknown part of 31 sizes (0..20000 bytes) x 7 positions x 3 fill patterns in a node-information message", ns * 7 * 3, true);

    // (1c) claims of every address length x every prefix
    ctx.par_range(17 * 256, |_, i| {
        let (len, prefix) = ((i / 256) as usize, (i % 256) as u8);
        let d = NiDesc {
            node_id: [1; 16],
            peers: vec![],
            claims: vec![((0..len).map(|k| (k * 17 + 3) as u8).collect(), prefix), (vec![], 0)],
            peer_timeout: None,
            addrs: vec![],
            unknown: vec![],
        };
        let v = check_nodeinfo(ctx, &d);
        ctx.report(v);
    });
    ctx.subspace("claims: every address length 0..=16 x every prefix 0..=255", 17 * 256, true);

    // (2) handshake messages
    let n2: u32 = ctx.tier.pick(12_000, 120_000);
    ctx.proptest("pt-init", n2, init_strategy, |d| {
        let v = check_init(ctx, d);
        ctx.sample("handshake-message", || serde_json::to_value(d).unwrap());
        v
    });
    ctx.subspace("proptest handshake message round trip / reference differential / unknown parts", n2 as u64, false);

    // (2b) one unknown part of every size class at every position of a handshake message
    let isizes: Vec<usize> = vec![0, 1, 2, 63, 64, 65, 127, 128, 129, 255, 256, 257, 300, 511, 512, 513, 1000, 1023, 1024, 1025, 4096, 20000];
    let nis = isizes.len() as u64;
    ctx.par_range(nis * 7 * 3, |_, i| {
        let size = isizes[(i % nis) as usize];
        let pos = ((i / nis) % 7) as u8;
        let stage = 1 + (i / nis / 7) as u8;
        let body: Vec<u8> = (0..size).map(|k| [1u8 + (k / 4 % 5) as u8, 0, 1, 0x55][k % 4]).collect();
        let d = InitDesc { stage, hash: [3; 20], ecdh: vec![5; 32], algos: vec![(0, 0), (1, 600f32.to_bits()), (3, 400f32.to_bits())], payload: vec![8; 40], seed: [4; 32], unknown: vec![(pos, 77, body)] };
        let v = check_init(ctx, &d);
        ctx.report(v);
    });
    ctx.subspace("one unknown part of 22 sizes (0..20000 bytes) x 7 positions x 3 stages in a handshake message", nis * 7 * 3, true);

    // (3) rotation messages
    let n3: u32 = ctx.tier.pick(6_000, 100_000);
    ctx.proptest(
        "pt-rotation",
        n3,
        || (any::<u64>(), proptest::collection::vec(any::<u8>(), 0..=255), proptest::option::of(proptest::collection::vec(any::<u8>(), 0..=255))),
        |(id, p, c)| check_rotation(ctx, *id, p, c),
    );
    ctx.subspace("proptest rotation message round trip / reference differential", n3 as u64, false);

    // (4) decoder totality: mutations of valid encodings
    let n4: u64 = ctx.tier.pick(200, 2000);
    ctx.par_range(n4, |_, i| {
        let mut runner = ctx.sampler("mutate", i as usize);
        // NodeInfo
        let d = Ctx::draw(&mut runner, &nodeinfo_strategy());
        let bytes = ref_encode_nodeinfo(&d, true);
        let nstep = bytes.len() / 1500 + 1;
        for cut in (0..bytes.len()).step_by(nstep) {
            let v = check_decode_bytes(ctx, "nodeinfo", &bytes[..cut], &[]);
            ctx.report(v);
        }
        for pos in tlv_positions(&bytes, 0) {
            for val in [0u8, 1, 2, 3, 4, 5, 6, 0x7f, 0x80, 0xff, bytes[pos].wrapping_add(1), bytes[pos].wrapping_sub(1)] {
                let mut m = bytes.clone();
                m[pos] = val;
                let v = check_decode_bytes(ctx, "nodeinfo", &m, &[]);
                ctx.nontrivial(&("mut-ni", i, pos, val));
                ctx.report(v);
            }
        }
        // handshake message
        let d = Ctx::draw(&mut runner, &init_strategy());
        let kp = Ed25519KeyPair::from_seed_unchecked(&d.seed).unwrap();
        let mut pk = [0u8; 32];
        pk.copy_from_slice(kp.public_key().as_ref());
        let bytes = ref_encode_init(&d, &kp, [1, 2, 3, 4], true);
        let step = if bytes.len() > 300 { 3 } else { 1 };
        for cut in (0..bytes.len()).step_by(step) {
            let v = check_decode_bytes(ctx, "init", &bytes[..cut], &[pk]);
            ctx.report(v);
        }
        for pos in tlv_positions(&bytes, 8) {
            for val in [0u8, 1, 2, 3, 4, 5, 6, 0x40, 0x7f, 0x80, 0xff, bytes[pos].wrapping_add(1)] {
                let mut m = bytes.clone();
                m[pos] = val;
                let v = check_decode_bytes(ctx, "init", &m, &[pk]);
                ctx.nontrivial(&("mut-init", i, pos, val));
                ctx.report(v);
            }
        }
        // rotation
        let mut rb = vec![];
        RotationMessage::verif_new(i, &pk, Some(&pk[..20])).write_to(&mut rb).unwrap();
        for cut in 0..rb.len() {
            let v = check_decode_bytes(ctx, "rotation", &rb[..cut], &[]);
            ctx.report(v);
        }
        for pos in [8usize, 8 + 1 + 32] {
            for val in 0..=255u8 {
                let mut m = rb.clone();
                m[pos] = val;
                let v = check_decode_bytes(ctx, "rotation", &m, &[]);
                ctx.nontrivial(&("mut-rot", pos, val));
                ctx.report(v);
            }
        }
    });
    ctx.subspace("valid encodings x (every truncation + substitutions at every tag/length position)", n4, false);

    // (5) random byte strings up to 2 KiB
    let n5: u32 = ctx.tier.pick(60_000, 600_000);
    ctx.proptest(
        "pt-random-bytes",
        n5,
        || (0u8..3, prop_oneof![proptest::collection::vec(any::<u8>(), 0..64), proptest::collection::vec(any::<u8>(), 0..2048), proptest::collection::vec(0u8..8, 0..300)]),
        |(which, bytes)| {
            let name = ["nodeinfo", "init", "rotation"][*which as usize];
            if name == "init" {
                // give the parser a header that selects a trusted key, so that it reaches the TLV body
                let pk = [0x42u8; 32];
                let salt = [9u8, 9, 9, 9];
                let mut b = salt.to_vec();
                b.extend_from_slice(&key_selector(&pk, &salt));
                b.extend_from_slice(bytes);
                check_decode_bytes(ctx, name, &b, &[pk])
            } else {
                check_decode_bytes(ctx, name, bytes, &[])
            }
        },
    );
    ctx.subspace("proptest random byte strings (<= 2 KiB; small-alphabet strings for TLV structure)", n5 as u64, false);

    if std::env::var("VCHECK_FUZZ").is_ok() && !ctx.quick() {
        crate::fuzzdrv::run_campaign_par(ctx, "decode_codecs", 6_000_000, 8, 4096);
    }
}

pub fn replay(ctx: &Ctx, case: &Value) {
    if crate::fuzzdrv::replay(ctx, case) {
        return;
    }
    let v = match case["kind"].as_str() {
        Some("nodeinfo") => match serde_json::from_value::<NiDesc>(case["desc"].clone()) {
            Ok(d) => check_nodeinfo(ctx, &d),
            Err(_) => vec![],
        },
        Some("init") => match serde_json::from_value::<InitDesc>(case["desc"].clone()) {
            Ok(d) => check_init(ctx, &d),
            Err(_) => vec![],
        },
        Some("rotation") => check_rotation(
            ctx,
            case["id"].as_u64().unwrap_or(0),
            &unhex(case["propose"].as_str().unwrap_or("")),
            &case["confirm"].as_str().map(unhex),
        ),
        Some("decode") => {
            let trusted: Vec<[u8; 32]> = case["trusted"]
                .as_array()
                .map(|a| {
                    a.iter()
                        .filter_map(|x| {
                            let b = unhex(x.as_str().unwrap_or(""));
                            if b.len() == 32 {
                                let mut k = [0u8; 32];
                                k.copy_from_slice(&b);
                                Some(k)
                            } else {
                                None
                            }
                        })
                        .collect()
                })
                .unwrap_or_default();
            check_decode_bytes(ctx, case["decoder"].as_str().unwrap_or("nodeinfo"), &unhex(case["bytes"].as_str().unwrap_or("")), &trusted)
        }
        _ => vec![],
    };
    ctx.report(v);
}
