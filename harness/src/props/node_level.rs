//! Node-level parts shared by several properties (real nodes on NetSim).
use crate::engine::Ctx;
use serde_json::Value;

pub fn c01_node(_ctx: &Ctx) {}

pub fn c02_node(_ctx: &Ctx) {}

pub fn c03_node(_ctx: &Ctx) {}

pub fn c05_node(_ctx: &Ctx) {}

pub fn c11_node(_ctx: &Ctx) {}

pub fn c12_node(_ctx: &Ctx) {}

pub fn replay(_ctx: &Ctx, _case: &Value) {}
