//! Node-level parts of properties whose main search runs on handshake / table objects
//! (real nodes on NetSim; scripted trusted peer where a peer must misbehave on purpose).

use crate::engine::{hex, pick_idx, Ctx, Viol};
use crate::props::lab::{Lab, RState, P, T};
use crate::sim::{base_config, eth_frame, ipv4_packet, node_id, sim_addr, NetSim, ScriptedPeer};
use proptest::prelude::*;
use serde::{Deserialize, Serialize};
use serde_json::{json, Value};
use smallvec::smallvec;
use std::net::SocketAddr;
use vpncloud::messages::NodeInfo;
use vpncloud::payload::{Frame, Packet};
use vpncloud::types::{Mode, Range};

// =====================================================================================
// C01 node level: forged handshake datagrams against full nodes
// =====================================================================================

#[derive(Clone, Debug, Serialize, Deserialize)]
pub struct C01Node {
    pub state: RState,
    /// 0 ping, 1 pong, 2 peng
    pub kind: u8,
    /// bit to flip (None: truncate to `len`)
    pub bit: Option<usize>,
    pub len: usize,
}

pub fn c01_node_case(ctx: &Ctx, c: &C01Node) -> Vec<Viol> {
    ctx.eval();
    let cj = || json!({"kind": "c01-node", "case": c});
    let mut out = vec![];
    let mut lab = Lab::build(c.state);
    let g = lab.genuine(c.kind as usize % 3).clone();
    if g.len() < 20 {
        return out;
    }
    let mut bytes = g.clone();
    match c.bit {
        Some(b) => {
            let b = 8 + b % ((g.len() - 1) * 8); // keep the marker
            bytes[b / 8] ^= 1 << (b % 8);
        }
        None => bytes.truncate(1 + c.len % (g.len() - 1)),
    }
    let src = lab.natural_source();
    let stranger = lab.stranger;
    // stale bytes behind the datagram: they must differ from the bytes that were cut off (else the parser sees the genuine message)
    let filler = if g.get(bytes.len()) == Some(&0xa5) { 0x5a } else { 0xa5 };
    let scrub: Vec<u8> = std::iter::once(0u8).chain(std::iter::repeat(filler).take(700)).collect();
    lab.sim.deliver_to(T, stranger, scrub);
    let before = lab.observe();
    lab.sim.deliver_to(T, src, bytes.clone());
    let after = lab.observe();
    if let Some((_, p, _)) = lab.sim.panics.first() {
        out.push(Viol::new(format!("node-{}", p.sig()), format!("forged handshake datagram made the node panic: {}", p.msg), cj()));
        return out;
    }
    if before != after {
        out.push(Viol::new(
            "forged-handshake-datagram-changes-node",
            format!("state {:?}: forged {} changed the node or was answered\n before: {}\n after: {}", c.state, ["ping", "pong", "peng"][c.kind as usize % 3], before, after),
            cj(),
        ));
    }
    if !lab.sim.take_iface(T).is_empty() {
        out.push(Viol::new("forged-handshake-datagram-reaches-interface", "interface write".to_string(), cj()));
    }
    if let Err(e) = lab.finish_and_probe() {
        out.push(Viol::new("handshake-in-progress-broken-at-node", format!("state {:?}: {}", c.state, e), cj()));
    }
    ctx.nontrivial(&(c.state, c.kind, c.bit, c.len));
    out
}

/// Messages that carry no proof of key possession at all: a bare type byte followed by a well-formed payload /
/// routing announcement / keepalive / close, i.e. exactly what a plain-transport peer would send. From a sender
/// that has not completed a handshake (unknown, or with a handshake in flight in either role) and from the
/// address of an encrypted peer they must neither reach the interface nor change routes, peers or handshakes.
#[derive(Clone, Debug, Serialize, Deserialize)]
pub struct C01Plain {
    pub state: RState,
    /// 0 data (well-formed Ethernet frame), 1 node information with claims, 2 keepalive, 3 close, 4..: that type byte + frame
    pub msg: u8,
    /// 0 natural source of the state, 1 stranger
    pub src: u8,
    pub stale: u8,
    /// None: the bare message. Some((cipher, guess, key id, upper nonce half)): the same message inside an envelope
    /// that anybody can make - sealed under a guessable key (sim::forge_sealed) for that key slot. Still no proof of
    /// possession of a trusted key.
    #[serde(default)]
    pub seal: Option<(u8, u8, u8, bool)>,
}

pub fn c01_plain_case(ctx: &Ctx, c: &C01Plain) -> Vec<Viol> {
    ctx.eval();
    let cj = || json!({"kind": "c01-plain", "case": c});
    let mut out = vec![];
    let mut lab = Lab::build(c.state);
    let frame = eth_frame([2, 0, 0, 0, 0, 9], [2, 0x55, 0, 0, 0, 7], None, b"unauthenticated payload");
    let mut bytes = vec![c.msg];
    match c.msg {
        1 => {
            let d = crate::props::c16::NiDesc {
                node_id: [0x5e; 16],
                peers: vec![(Some([9; 16]), vec!["10.9.9.9:3210".into()])],
                claims: vec![(vec![2, 0x55, 0, 0, 0, 0], 16), (vec![10, 66, 0, 0], 16)],
                peer_timeout: Some(300),
                addrs: vec!["10.9.9.1:3210".into()],
                unknown: vec![],
            };
            bytes.extend(crate::props::c16::ref_encode_nodeinfo(&d, false));
        }
        2 | 3 => {}
        _ => bytes.extend_from_slice(&frame),
    }
    if let Some((cipher, guess, key_id, half)) = c.seal {
        // counter well above anything the connection has used (the genuine sender's counters start below 2^48)
        let mut ctr = [0u8; 8];
        let g = lab.genuine(3);
        if g.len() >= 8 && g[0] != 0xff {
            ctr[1..].copy_from_slice(&g[1..8]);
        }
        bytes = crate::sim::forge_sealed(cipher, guess, key_id, if half { 0x80 } else { 0 }, u64::from_be_bytes(ctr).wrapping_add(1 << 20), &bytes);
    }
    let src = if c.src == 0 { lab.natural_source() } else { lab.stranger };
    let stranger = lab.stranger;
    lab.sim.deliver_to(T, stranger, crate::props::c08::stale_bytes(c.stale));
    let before = lab.observe();
    lab.sim.deliver_to(T, src, bytes.clone());
    let after = lab.observe();
    if let Some((_, p, _)) = lab.sim.panics.first() {
        out.push(Viol::new(format!("node-{}", p.sig()), format!("unauthenticated message made the node panic: {}", p.msg), cj()));
        return out;
    }
    if !lab.sim.take_iface(T).is_empty() {
        out.push(Viol::new(
            "payload-accepted-without-proof-of-key",
            format!("state {:?}: a cleartext message (type {}) from {} was written to the interface although its sender never completed a handshake / the connection is encrypted", c.state, c.msg, src),
            cj(),
        ));
    }
    if before != after {
        out.push(Viol::new(
            "unauthenticated-message-changes-node",
            format!("state {:?}: cleartext message type {} from {} changed the node or was answered\n before: {}\n after: {}", c.state, c.msg, src, before, after),
            cj(),
        ));
    }
    if out.is_empty() {
        if let Err(e) = lab.finish_and_probe() {
            out.push(Viol::new("handshake-in-progress-broken-at-node", format!("state {:?} after a cleartext message: {}", c.state, e), cj()));
        }
    }
    ctx.nontrivial(&("plain", c.state, c.msg, c.src, c.stale, c.seal));
    out
}

pub fn c01_node(ctx: &Ctx) {
    {
        let states = [RState::Unknown, RState::PendingInitiator, RState::PendingResponder, RState::EstLinger, RState::EstNoLinger, RState::EstResponder];
        let mut cases = vec![];
        for st in states {
            for msg in [0u8, 1, 2, 3, 4, 0x10] {
                for src in 0..2u8 {
                    for stale in 0..4u8 {
                        cases.push(C01Plain { state: st, msg, src, stale, seal: None });
                    }
                }
            }
            // the same messages inside an envelope sealed under a key anybody can guess, for every key slot and half
            for msg in [0u8, 1, 3] {
                for cipher in 0..3u8 {
                    for guess in 0..5u8 {
                        for key_id in 0..4u8 {
                            for half in [false, true] {
                                if ctx.quick() && guess >= 2 && (cipher + guess + key_id + msg) % 3 != 0 {
                                    continue;
                                }
                                cases.push(C01Plain { state: st, msg, src: 0, stale: (guess + key_id) % 4, seal: Some((cipher, guess, key_id, half)) });
                            }
                        }
                    }
                }
            }
        }
        ctx.par_items(&cases, |_, c| {
            let v = c01_plain_case(ctx, c);
            ctx.report(v);
        });
        ctx.subspace("node level: data / node-info / keepalive / close messages without proof of key - bare, and sealed under 5 guessable keys x 3 ciphers x 4 key slots x 2 nonce halves - x 6 receiver states", cases.len() as u64, true);
    }
    let n: u32 = ctx.tier.pick(1_500, 12_000);
    let states = [RState::Unknown, RState::PendingInitiator, RState::PendingResponder, RState::EstLinger, RState::EstNoLinger, RState::EstResponder];
    ctx.proptest(
        "pt-c01-node",
        n,
        || (any::<u16>(), 0u8..3, proptest::option::weighted(0.8, any::<usize>()), any::<usize>()),
        |(s, kind, bit, len)| c01_node_case(ctx, &C01Node { state: states[pick_idx(*s, states.len())], kind: *kind, bit: *bit, len: *len }),
    );
    ctx.subspace("node level: bit flips / truncations of genuine ping/pong/peng injected into full nodes in 6 states", n as u64, false);
}

// =====================================================================================
// C02 node level: cleartext never on the wire, byte-identical delivery, tampering dropped
// =====================================================================================

#[derive(Clone, Debug, Serialize, Deserialize)]
pub struct C02Node {
    /// per node: bit 0 plain, bit 1 aes128, bit 2 aes256, bit 3 chacha
    pub algos: [u8; 3],
    pub seed: u64,
    pub frames: u8,
    /// how each node gets its cipher list: 0 set in the Config struct, 1 config file only, 2 command line only,
    /// 3 config file (list `file_algos[i]`) AND command line (list `algos[i]`) - the command line wins, so the
    /// node has enabled exactly `algos[i]`; the configuration goes through the real file parser, argument parser
    /// and merge functions
    #[serde(default)]
    pub via: [u8; 3],
    #[serde(default)]
    pub file_algos: [u8; 3],
}

/// effective configuration produced by the real configuration path (YAML file text + argv), as main() builds it
fn config_via(via: u8, mask: u8, file_mask: u8) -> Result<vpncloud::config::Config, String> {
    let yaml_list = |m: u8| algo_list(m).iter().map(|a| format!("\"{}\"", a)).collect::<Vec<_>>().join(", ");
    let mut yaml = "crypto:\n  password: test123\n".to_string();
    let mut argv: Vec<String> = vec!["vpncloud".into()];
    match via % 4 {
        1 => yaml.push_str(&format!("  algorithms: [{}]\n", yaml_list(mask))),
        2 => {
            for a in algo_list(mask) {
                argv.push("--algorithm".into());
                argv.push(a);
            }
        }
        _ => {
            yaml.push_str(&format!("  algorithms: [{}]\n", yaml_list(file_mask)));
            for a in algo_list(mask) {
                argv.push("--algorithm".into());
                argv.push(a);
            }
        }
    }
    crate::props::c20::merge_real(&Some(yaml), &argv)
}

fn algo_list(mask: u8) -> Vec<String> {
    let mut v = vec![];
    for (i, n) in ["plain", "aes128", "aes256", "chacha20"].iter().enumerate() {
        if mask & (1 << i) != 0 {
            v.push(n.to_string());
        }
    }
    v
}

fn find_window(hay: &[u8], needle: &[u8], w: usize) -> bool {
    needle.len() >= w && needle.windows(w).any(|x| hay.windows(w).any(|h| h == x))
}

pub fn c02_node_case(ctx: &Ctx, c: &C02Node) -> Vec<Viol> {
    ctx.eval();
    let cj = || json!({"kind": "c02-node", "case": c});
    let mut out = vec![];
    let mut sim: NetSim<Frame> = NetSim::new();
    // distinctive claims (MAC ranges) so that an 8-byte window of their encoding is significant
    let claims = ["c2:a1:b7:5e:93:00/40", "c2:4d:e9:17:6b:00/40", "c2:f3:08:ac:d5:00/40"];
    for i in 0..3 {
        let mut cfg = base_config();
        cfg.mode = Mode::Switch;
        cfg.auto_claim = false;
        cfg.claims = vec![claims[i].to_string()];
        let mask = c.algos[i] & 0xf;
        let mask = if mask & 0xe == 0 && mask & 1 == 0 { 0xe } else { mask };
        cfg.crypto.algorithms = algo_list(mask);
        if c.via[i] % 4 != 0 {
            // same node, but its cipher list comes out of the real configuration path
            match config_via(c.via[i], mask, c.file_algos[i] & 0xf) {
                Ok(real) => {
                    cfg.crypto = real.crypto;
                    ctx.class(["", "c02-node:list-from-file", "c02-node:list-from-command-line", "c02-node:list-from-file-and-command-line"][(c.via[i] % 4) as usize]);
                }
                Err(e) => {
                    out.push(Viol::new("configuration-rejected", format!("node {}: {}", i, e), cj()));
                    return out;
                }
            }
        }
        sim.add_node(&cfg, false);
    }
    sim.record = true;
    let (a1, a2) = (sim.addr(1), sim.addr(2));
    sim.connect(0, a1);
    sim.connect(0, a2);
    sim.connect(1, a2);
    sim.settle();
    sim.run(3);
    // which pairs are connected, and which are plain by agreement?
    let plain_of = |m: u8| m & 1 != 0;
    let mut connected = vec![];
    for i in 0..3 {
        for j in 0..3 {
            if i < j && sim.is_connected(i, j) && sim.is_connected(j, i) {
                let algo = sim.nodes[i].node.verif_peers().iter().find(|p| p.addr == sim.addr(j)).map(|p| p.algorithm).unwrap_or("?");
                let both_plain = plain_of(c.algos[i]) && plain_of(c.algos[j]);
                if (algo == "PLAIN") != both_plain {
                    out.push(Viol::new(
                        "plain-chosen-without-both-enabling-it",
                        format!("pair {}-{}: cipher {} but plain enabled by both: {}", i, j, algo, both_plain),
                        cj(),
                    ));
                }
                connected.push((i, j, algo == "PLAIN"));
            }
        }
    }
    // frames with high-entropy payloads between connected pairs
    let mut x = c.seed | 1;
    let mut payloads: Vec<(usize, usize, Vec<u8>)> = vec![];
    let handshake_end = sim.wire_log.len();
    for k in 0..(c.frames as usize % 12 + 1) {
        if connected.is_empty() {
            break;
        }
        let (i, j, _) = connected[k % connected.len()];
        let (from, to) = if k % 2 == 0 { (i, j) } else { (j, i) };
        let len = 20 + (x as usize >> 8) % 600;
        let body: Vec<u8> = (0..len)
            .map(|_| {
                x ^= x << 13;
                x ^= x >> 7;
                x ^= x << 17;
                (x >> 24) as u8
            })
            .collect();
        let mac = |n: usize| [0xc2, [0xa1, 0x4d, 0xf3][n], [0xb7, 0xe9, 0x08][n], [0x5e, 0x17, 0xac][n], [0x93, 0x6b, 0xd5][n], 0x01];
        let frame = eth_frame(mac(to), mac(from), None, &body);
        for n in 0..3 {
            sim.take_iface(n);
        }
        sim.put_payload(from, frame.clone());
        sim.settle();
        let got = sim.take_iface(to);
        if got != vec![frame.clone()] {
            out.push(Viol::new(
                "payload-not-delivered-byte-identical",
                format!("frame of {} bytes from node {} to node {}: receiver wrote {} frames (identical: {})", frame.len(), from, to, got.len(), got.first() == Some(&frame)),
                cj(),
            ));
        }
        payloads.push((from, to, frame));
    }
    // frames that take the flood path (broadcast destination): every connected peer of the sender - over sealed and
    // unencrypted connections alike - must write exactly these bytes
    for from in 0..3usize {
        let peers_of: Vec<usize> = connected.iter().filter_map(|(i, j, _)| if *i == from { Some(*j) } else if *j == from { Some(*i) } else { None }).collect();
        if peers_of.is_empty() {
            continue;
        }
        let len = 30 + (x as usize >> 9) % 900;
        let body: Vec<u8> = (0..len)
            .map(|_| {
                x ^= x << 13;
                x ^= x >> 7;
                x ^= x << 17;
                (x >> 24) as u8
            })
            .collect();
        let src_mac = [0xc2, [0xa1, 0x4d, 0xf3][from], [0xb7, 0xe9, 0x08][from], [0x5e, 0x17, 0xac][from], [0x93, 0x6b, 0xd5][from], 0x02];
        let frame = eth_frame([0xff; 6], src_mac, None, &body);
        for n in 0..3 {
            sim.take_iface(n);
        }
        sim.put_payload(from, frame.clone());
        sim.settle();
        for to in 0..3usize {
            let got = sim.take_iface(to);
            let want: Vec<Vec<u8>> = if peers_of.contains(&to) { vec![frame.clone()] } else { vec![] };
            if got != want {
                out.push(Viol::new(
                    "flooded-frame-not-delivered-byte-identical",
                    format!(
                        "broadcast frame of {} bytes read at node {} (peers {:?}, cipher lists {:?}): node {} wrote {} frames (first identical: {})",
                        frame.len(), from, peers_of, c.algos, to, got.len(), got.first() == Some(&frame)
                    ),
                    cj(),
                ));
            }
        }
        ctx.class("c02-node:flooded-frame");
        payloads.push((from, 99, frame));
    }
    // a newcomer (default ciphers) dials node 0 now: node 0 parses the ping in, and builds its reply in, the long-lived
    // receive buffer that just held decrypted payload - nothing of that may travel along with the handshake
    {
        let mut cfg = base_config();
        cfg.mode = Mode::Switch;
        cfg.auto_claim = false;
        let late = sim.add_node(&cfg, false);
        let a0 = sim.addr(0);
        // make sure the last thing node 0 decrypted is a long frame
        if let Some((peer, _, _)) = connected.iter().find(|(i, j, _)| *i == 0 || *j == 0).map(|(i, j, p)| (if *i == 0 { *j } else { *i }, 0, *p)) {
            let body: Vec<u8> = (0..700).map(|k| (k as u8).wrapping_mul(151).wrapping_add((c.seed >> 3) as u8)).collect();
            let frame = eth_frame([0xc2, 0xa1, 0xb7, 0x5e, 0x93, 0x01], [0xc2, 0x11, 0x22, 0x33, 0x44, 0x55], None, &body);
            sim.put_payload(peer, frame.clone());
            sim.settle();
            for n in 0..3 {
                sim.take_iface(n);
            }
            payloads.push((peer, 0, frame));
        }
        sim.connect(late, a0);
        sim.settle();
    }
    sim.run(2);
    // wire search: no 8-byte window of a payload on encrypted connections
    for d in &sim.wire_log[handshake_end..] {
        let (s, t) = (sim.index.get(&d.src).copied(), sim.index.get(&d.dst).copied());
        let plain_conn = match (s, t) {
            (Some(s), Some(t)) => connected.iter().any(|(i, j, p)| *p && ((*i == s && *j == t) || (*i == t && *j == s))),
            _ => false,
        };
        // handshake datagrams are searched as well: they are built in buffers that held payload before
        if plain_conn {
            continue;
        }
        for (from, to, f) in &payloads {
            if find_window(&d.data, &f[12..], 8) {
                out.push(Viol::new(
                    "payload-cleartext-on-wire",
                    format!("8 bytes of the frame {}->{} appear in a datagram {}->{} on an encrypted connection", from, to, d.src, d.dst),
                    cj(),
                ));
            }
        }
    }
    // claims and node information: their encodings must not appear in any post-handshake datagram of encrypted pairs
    for d in &sim.wire_log {
        if d.data.first() == Some(&0xff) {
            // handshake messages carry node info only sealed (pong/peng payload) unless plain
        }
        let (s, t) = (sim.index.get(&d.src).copied(), sim.index.get(&d.dst).copied());
        let plain_conn = match (s, t) {
            // (index 3 is the newcomer, which never enables plain)
            (Some(s), Some(t)) if s < 3 && t < 3 => plain_of(c.algos[s]) && plain_of(c.algos[t]),
            _ => false,
        };
        if plain_conn {
            continue;
        }
        for cl in claims {
            let r: Range = cl.parse().unwrap();
            let enc = &r.base.data[..5];
            let nid_hit = d.data.windows(5).any(|w| w == enc);
            if nid_hit {
                out.push(Viol::new(
                    "claim-cleartext-on-wire",
                    format!("the encoding of claim {} appears in a datagram {}->{} although that pair did not agree on plain", cl, d.src, d.dst),
                    cj(),
                ));
            }
        }
    }
    // tampered copies of the last data datagram must not reach any interface
    let old3 = |a: &SocketAddr| sim.index.get(a).map(|i| *i < 3).unwrap_or(false);
    if let Some(d) = sim.wire_log.iter().rev().find(|d| d.data.len() > 60 && d.data.first() != Some(&0xff) && old3(&d.src) && old3(&d.dst)).cloned() {
        let enc_pair = match (sim.index.get(&d.src), sim.index.get(&d.dst)) {
            (Some(s), Some(t)) => !(plain_of(c.algos[*s]) && plain_of(c.algos[*t])),
            _ => false,
        };
        if enc_pair {
            let t = sim.index[&d.dst];
            for bit in [0usize, 2, 9, 70, d.data.len() * 8 - 1] {
                let mut b = d.data.clone();
                b[bit / 8] ^= 1 << (bit % 8);
                for n in 0..3 {
                    sim.take_iface(n);
                }
                sim.deliver_to(t, d.src, b);
                sim.settle();
                if (0..3).any(|n| !sim.take_iface(n).is_empty()) {
                    out.push(Viol::new("altered-datagram-reaches-interface", format!("bit {} of a data datagram flipped: still written to an interface", bit), cj()));
                }
            }
            // reflection and cross-connection injection
            let s = sim.index[&d.src];
            for (node, from) in [(s, d.dst), ((0..3).find(|n| *n != s && *n != t).unwrap(), d.src)] {
                // the connection the datagram is injected into must itself be an encrypted one: in plain mode
                // nothing is authenticated (DESIGN.md section 6)
                let from_idx = sim.index[&from];
                if plain_of(c.algos[node]) && plain_of(c.algos[from_idx]) {
                    continue;
                }
                sim.deliver_to(node, from, d.data.clone());
                sim.settle();
                if (0..3).any(|n| !sim.take_iface(n).is_empty()) {
                    out.push(Viol::new("reflected-or-cross-injected-datagram-reaches-interface", format!("datagram {}->{} injected at node {}", d.src, d.dst, node), cj()));
                }
            }
        }
    }
    if let Some((n, p, _)) = sim.panics.first() {
        out.push(Viol::new(format!("node-{}", p.sig()), format!("node {} panicked: {}", n, p.msg), cj()));
    }
    ctx.nontrivial(&(c.algos, c.seed, c.frames));
    ctx.class(&format!("mesh:connected-pairs={}", connected.len()));
    out
}

/// A peer that comes back on the same address with other cipher settings (process restart without a close
/// message, before the other side timed it out): after the new handshake the connection must run on what was
/// negotiated *now* - sealed unless both ends enable plain now, and with keys both ends hold.
#[derive(Clone, Debug, Serialize, Deserialize)]
pub struct C02Restart {
    /// cipher masks (bit 0 plain, 1 aes128, 2 aes256, 3 chacha20): node N, peer P before, peer P after its restart
    pub n: u8,
    pub before: u8,
    pub after: u8,
    /// who dials first / after the restart: bit 0: P dials N first (else N dials P); bit 1: N is restarted instead of P
    pub who: u8,
    /// seconds between first establishment and the restart
    pub wait: u32,
}

pub fn c02_restart_case(ctx: &Ctx, c: &C02Restart) -> Vec<Viol> {
    ctx.eval();
    let cj = || json!({"kind": "c02-restart", "case": c});
    let mut out = vec![];
    let plain_of = |m: u8| m & 1 != 0;
    let compatible = |a: u8, b: u8| (plain_of(a) && plain_of(b)) || (a & b & 0xe) != 0;
    // the pair before the restart is (n, before); afterwards it is (n, after) when P restarts and (after, before) when N does
    let pair_after = if c.who & 2 == 2 { (c.after, c.before) } else { (c.n, c.after) };
    if !compatible(c.n, c.before) || !compatible(pair_after.0, pair_after.1) {
        return out;
    }
    let mk = |mask: u8, idx: usize| {
        let mut cfg = base_config();
        cfg.mode = Mode::Switch;
        cfg.auto_claim = false;
        cfg.claims = vec![["c2:a1:b7:5e:93:00/40", "c2:4d:e9:17:6b:00/40"][idx].to_string()];
        cfg.crypto.algorithms = algo_list(mask & 0xf);
        cfg
    };
    let mut sim: NetSim<Frame> = NetSim::new();
    sim.add_node(&mk(c.n, 0), false);
    sim.add_node(&mk(c.before, 1), false);
    sim.record = true;
    let (a0, a1) = (sim.addr(0), sim.addr(1));
    if c.who & 1 == 1 {
        sim.connect(1, a0);
    } else {
        sim.connect(0, a1);
    }
    sim.settle();
    sim.run(c.wait as i64 % 200);
    if !(sim.is_connected(0, 1) && sim.is_connected(1, 0)) {
        out.push(Viol::new("c02-restart-setup", "first establishment failed".to_string(), cj()));
        return out;
    }
    // the restart; the restarted process dials the other node
    let (restarted, other, other_addr) = if c.who & 2 == 2 { (0usize, 1usize, a1) } else { (1usize, 0usize, a0) };
    let (mask_r, mask_o) = if restarted == 1 { (c.after, c.n) } else { (c.after, c.before) };
    sim.restart_node(restarted, &mk(mask_r, restarted), false);
    sim.configure_peer(restarted, other_addr);
    sim.settle();
    // a handshake object lingering at the other node (it was the initiator less than 60 s ago) answers the new ping
    // with its old peng until the linger minute is over; the restarted node keeps retrying meanwhile
    // (observation O1: the two repeat at network speed; the simulated network drops what is in flight after 300
    // deliveries per instant - loss is something a network may do - and the run goes on)
    sim.storm_limit = 300;
    let mut waited = 0;
    while !sim.is_connected(restarted, other) && waited < 200 {
        sim.tick();
        waited += 1;
    }
    sim.run(2);
    if sim.storms > 0 {
        ctx.class("restart:handshake-repeat-loop-seen(O1)");
        sim.storm = false;
    }
    sim.storm_limit = 20_000;
    if !(sim.is_connected(0, 1) && sim.is_connected(1, 0)) {
        out.push(Viol::new(
            "restarted-peer-not-reconnected",
            format!("after the restart of node {} and its new handshake the two nodes are not mutually connected", restarted),
            cj(),
        ));
        return out;
    }
    let both_plain = plain_of(mask_r) && plain_of(mask_o);
    let ra = sim.addr(restarted);
    let algo = sim.nodes[other].node.verif_peers().iter().find(|p| p.addr == ra).map(|p| p.algorithm).unwrap_or("?");
    if (algo == "PLAIN") != both_plain {
        out.push(Viol::new(
            "connection-runs-on-settings-of-an-earlier-handshake",
            format!("node {} holds cipher {} for the restarted peer although plain is {} by both ends now", other, algo, if both_plain { "enabled" } else { "not enabled" }),
            cj(),
        ));
    }
    let mark = sim.wire_log.len();
    let mac = |n: usize| [0xc2, [0xa1, 0x4d][n], [0xb7, 0xe9][n], [0x5e, 0x17][n], [0x93, 0x6b][n], 0x01];
    let mut frames = vec![];
    for k in 0..4usize {
        let (from, to) = if k % 2 == 0 { (other, restarted) } else { (restarted, other) };
        let body: Vec<u8> = (0..90usize).map(|i| ((i * 37 + k * 101 + 11) as u8) ^ 0x5c).collect();
        let frame = eth_frame(mac(to), mac(from), None, &body);
        sim.take_iface(0);
        sim.take_iface(1);
        sim.put_payload(from, frame.clone());
        sim.settle();
        let got = sim.take_iface(to);
        if got != vec![frame.clone()] {
            out.push(Viol::new(
                "payload-not-delivered-byte-identical",
                format!("after the restart: frame from node {} to node {}: receiver wrote {} frames", from, to, got.len()),
                cj(),
            ));
        }
        frames.push(frame);
    }
    sim.run(2);
    if !both_plain {
        for d in &sim.wire_log[mark..] {
            if d.data.first() == Some(&0xff) {
                continue;
            }
            if frames.iter().any(|f| find_window(&d.data, &f[12..], 8)) {
                out.push(Viol::new("payload-cleartext-on-wire", format!("after the restart: 8 payload bytes appear in a datagram {}->{}", d.src, d.dst), cj()));
                break;
            }
            for cl in ["c2:a1:b7:5e:93:00/40", "c2:4d:e9:17:6b:00/40"] {
                let r: Range = cl.parse().unwrap();
                if d.data.windows(5).any(|w| w == &r.base.data[..5]) {
                    out.push(Viol::new("claim-cleartext-on-wire", format!("after the restart: claim {} appears in a datagram {}->{}", cl, d.src, d.dst), cj()));
                }
            }
        }
        // an unsealed datagram claiming the peer's address must not be delivered
        let mut forged = vec![0u8];
        forged.extend_from_slice(&eth_frame(mac(other), mac(restarted), None, b"forged cleartext frame"));
        sim.take_iface(other);
        sim.deliver_to(other, ra, forged);
        if !sim.take_iface(other).is_empty() {
            out.push(Viol::new("unsealed-datagram-delivered", "after the restart: a cleartext datagram from the peer's address was written to the interface".to_string(), cj()));
        }
    }
    if let Some((n, p, _)) = sim.panics.first() {
        out.push(Viol::new(format!("node-{}", p.sig()), format!("node {} panicked: {}", n, p.msg), cj()));
    }
    ctx.nontrivial(&(c.n, c.before, c.after, c.who, c.wait));
    ctx.class(if both_plain { "restart:now-plain" } else if plain_of(c.before) && plain_of(c.n) && restarted == 1 { "restart:plain-to-sealed" } else { "restart:sealed" });
    out
}

pub fn c02_node(ctx: &Ctx) {
    {
        let masks = [0xfu8, 0xe, 0x1, 0x2, 0x9, 0x6];
        let mut cases = vec![];
        for n in masks {
            for before in masks {
                for after in masks {
                    for who in 0..4u8 {
                        for wait in [0u32, 3, 70] {
                            if ctx.quick() && wait == 3 {
                                continue;
                            }
                            cases.push(C02Restart { n, before, after, who, wait });
                        }
                    }
                }
            }
        }
        let total = cases.len() as u64;
        ctx.par_items(&cases, |_, c| {
            let v = c02_restart_case(ctx, c);
            ctx.report(v);
        });
        ctx.subspace("node level: peer restarts on the same address with other cipher settings (6 x 6 x 6 cipher lists x who dials / who restarts x 0 / 3 / 70 s uptime)", total, true);
    }
    // cipher lists that come out of the real configuration path: file x command line, all 16 x 16 list pairs for a
    // node pair in which both nodes are configured the same way (plain must be used iff the EFFECTIVE lists both have it)
    {
        let mut cases = vec![];
        for cli in 1..16u8 {
            for file in 0..16u8 {
                if ctx.quick() && (cli as usize * 16 + file as usize) % 3 != 0 && !(file & 1 == 1 && cli & 1 == 0) {
                    continue;
                }
                cases.push(C02Node { algos: [cli, cli, 0xe], seed: cli as u64 * 131 + file as u64, frames: 3, via: [3, 3, 0], file_algos: [file, file, 0] });
            }
            cases.push(C02Node { algos: [cli, cli, 0xf], seed: cli as u64, frames: 3, via: [1, 2, 1], file_algos: [0; 3] });
        }
        let total = cases.len() as u64;
        ctx.par_items(&cases, |_, c| {
            let v = c02_node_case(ctx, c);
            ctx.report(v);
        });
        ctx.subspace("node level: cipher lists produced by the real configuration path (YAML file x command line, command line wins) x 15 x 16 list pairs", total, ctx.tier == crate::engine::Tier::Thorough);
    }
    let n: u32 = ctx.tier.pick(300, 4_000);
    ctx.proptest("pt-c02-node", n, || (any::<[u8; 3]>(), any::<u64>(), any::<u8>(), prop_oneof![Just([0u8; 3]), any::<[u8; 3]>()], any::<[u8; 3]>()), |(algos, seed, frames, via, file_algos)| {
        let c = C02Node { algos: [algos[0] & 0xf, algos[1] & 0xf, algos[2] & 0xf], seed: *seed, frames: *frames, via: [via[0] % 4, via[1] % 4, via[2] % 4], file_algos: [file_algos[0] & 0xf, file_algos[1] & 0xf, file_algos[2] & 0xf] };
        let v = c02_node_case(ctx, &c);
        ctx.sample("mesh", || serde_json::to_value(&c).unwrap());
        v
    });
    ctx.subspace("node level: 3-node meshes with random per-node cipher lists, frames, wire capture search, tampering", n as u64, false);
}

// =====================================================================================
// C03 node level: replay of captured data datagrams k housekeeping rounds later
// =====================================================================================

pub fn c03_node_case(ctx: &Ctx, k: u32, newer_between: bool, receiver_is_initiator: bool) -> Vec<Viol> {
    ctx.eval();
    let case = json!({"kind": "c03-node", "k": k, "newer_between": newer_between, "receiver_is_initiator": receiver_is_initiator});
    let mut out = vec![];
    // the receiving node is either the responder of the connection or its initiator (whose handshake object lingers)
    let mut lab = Lab::build(if receiver_is_initiator { RState::EstLinger } else { RState::EstResponder });
    let f = |n: u8| eth_frame([2, 0, 0, 0, 0, 1], [2, 0, 0, 0, 0, 2], None, &[n; 40]);
    lab.sim.take_iface(T);
    let before = lab.sim.wire_log.len();
    lab.sim.put_payload(P, f(1));
    let at = lab.sim.addr(T);
    let captured = lab.sim.wire_log[before..].iter().find(|d| d.dst == at).cloned();
    lab.sim.settle();
    let first = lab.sim.take_iface(T);
    if first != vec![f(1)] {
        out.push(Viol::new("c03-node-setup", "first delivery failed".to_string(), case));
        return out;
    }
    let d = match captured {
        Some(d) => d,
        None => return out,
    };
    for _ in 0..k {
        lab.sim.tick();
        if newer_between {
            lab.sim.put_payload(P, f(9));
            lab.sim.settle();
        }
    }
    lab.sim.take_iface(T);
    lab.sim.deliver_to(T, d.src, d.data.clone());
    let again = lab.sim.take_iface(T);
    // history-based expectation: accepted iff fewer than two ticks passed since it (the newest then) was accepted
    let expect_accept = k < 2;
    if again.is_empty() == expect_accept {
        out.push(Viol::new(
            if again.is_empty() { "in-window-datagram-rejected-at-node" } else { "replay-delivered-outside-window-at-node" },
            format!("data datagram replayed {} housekeeping rounds after first delivery: written {} times (expected {})", k, again.len(), if expect_accept { 1 } else { 0 }),
            case,
        ));
    }
    ctx.nontrivial(&("c03n", k, newer_between));
    out
}

pub fn c03_node(ctx: &Ctx) {
    for k in 0..=5 {
        for nb in [false, true] {
            for ini in [false, true] {
                let v = c03_node_case(ctx, k, nb, ini);
                ctx.report(v);
            }
        }
    }
    ctx.subspace("node level: data datagram replayed k = 0..=5 housekeeping rounds after first delivery (with/without newer traffic, receiver = responder / lingering initiator)", 24, true);
}

// =====================================================================================
// C05 node level: adversarial network, then reliable phase
// =====================================================================================

#[derive(Clone, Debug, Serialize, Deserialize)]
pub struct C05Node {
    pub nodes: u8,
    /// per datagram fate selector (cycled): 0..=255
    pub fates: Vec<u8>,
    pub adversarial_seconds: u16,
    /// who dials whom: bit k of edges[i] = node i is configured with peer k
    pub edges: [u8; 3],
    /// one-way outages: (from node, to node, start second, length in seconds) - everything in that direction is lost
    #[serde(default)]
    pub outages: Vec<(u8, u8, u16, u16)>,
    /// total blackout: from second 100 on NOTHING is delivered between any two nodes for this many seconds (0 = none,
    /// at most 5000: up to there the documented reconnect schedule - interval doubling every 10 tries - keeps the
    /// gaps between dial attempts of a configured peer below the recovery bound)
    #[serde(default)]
    pub blackout: u16,
}

pub fn c05_node_case(ctx: &Ctx, c: &C05Node) -> Vec<Viol> {
    ctx.eval();
    let cj = || json!({"kind": "c05-node", "case": c});
    let mut out = vec![];
    let n = c.nodes.clamp(2, 3) as usize;
    let mut sim: NetSim<Frame> = NetSim::new();
    for _ in 0..n {
        let mut cfg = base_config();
        cfg.mode = Mode::Switch;
        cfg.auto_claim = false;
        sim.add_node(&cfg, false);
    }
    // adversary: per-datagram fate from the generated list
    let fates = if c.fates.is_empty() { vec![0u8] } else { c.fates.clone() };
    let counter = std::cell::Cell::new(0usize);
    let active = std::rc::Rc::new(std::cell::Cell::new(true));
    let act2 = active.clone();
    let faults = std::rc::Rc::new(std::cell::Cell::new(0u32));
    let f2 = faults.clone();
    let addrs: Vec<SocketAddr> = (0..n).map(|i| sim.addr(i)).collect();
    let outages: Vec<(SocketAddr, SocketAddr, i64, i64)> = c
        .outages
        .iter()
        .map(|(a, b, s, l)| (addrs[*a as usize % n], addrs[*b as usize % n], crate::sim::T0 + (*s % 200) as i64, crate::sim::T0 + (*s % 200) as i64 + (*l % 200) as i64))
        .collect();
    let has_outage = !outages.is_empty();
    let blackout = (c.blackout.min(5000)) as i64;
    sim.policy = Some(Box::new(move |d| {
        if !act2.get() {
            return vec![0];
        }
        if blackout > 0 && d.sent_at >= crate::sim::T0 + 100 && d.sent_at < crate::sim::T0 + 100 + blackout {
            f2.set(f2.get() + 1);
            return vec![];
        }
        if outages.iter().any(|(a, b, s, e)| d.src == *a && d.dst == *b && d.sent_at >= *s && d.sent_at < *e) {
            f2.set(f2.get() + 1);
            return vec![];
        }
        let k = counter.get();
        counter.set(k + 1);
        let f = fates[k % fates.len()];
        match f % 8 {
            0 | 1 | 2 => vec![0],
            3 => {
                f2.set(f2.get() + 1);
                vec![]
            }
            4 => {
                f2.set(f2.get() + 1);
                vec![0, 0]
            }
            5 => {
                f2.set(f2.get() + 1);
                vec![(f as i64 / 8) % 90 + 1]
            }
            6 => {
                f2.set(f2.get() + 1);
                vec![0, (f as i64 / 8) % 90 + 1]
            }
            _ => {
                f2.set(f2.get() + 1);
                vec![1]
            }
        }
    }));
    // configured peers (connect + add_reconnect_peer, exactly as run() does); the configured graph must be connected
    let mut configured = vec![];
    for i in 0..n {
        for j in 0..n {
            if i != j && (c.edges[i] & (1 << j) != 0 || (i == 0 && j == 1) || (n == 3 && i == 1 && j == 2)) {
                configured.push((i, j));
            }
        }
    }
    for (i, j) in &configured {
        let a = sim.addr(*j);
        sim.configure_peer(*i, a);
    }
    sim.settle();
    // the adversarial phase lasts until the last outage window is over
    let adv = if blackout > 0 { 100 + blackout } else if has_outage { 400 } else { (c.adversarial_seconds % 200) as i64 };
    sim.run(adv);
    // reliable phase: the recovery bound counts from the moment the last delayed datagram has been delivered
    active.set(false);
    let last_delayed = sim.delayed.iter().map(|d| d.deliver_at).max().unwrap_or(sim.now).max(sim.now);
    let wait = last_delayed - sim.now;
    sim.run(wait);
    let bound = 300 + 120 + 10; // peer timeout + handshake retry horizon + slack
    let mut ok_at = None;
    for s in 0..bound {
        sim.tick();
        if configured.iter().all(|(i, j)| sim.is_connected(*i, *j) && sim.is_connected(*j, *i)) {
            ok_at = Some(s);
            break;
        }
    }
    if let Some((i, p, ctxt)) = sim.panics.first() {
        out.push(Viol::new(format!("node-{}", p.sig()), format!("node {} panicked under the adversarial network: {} at {} ({})", i, p.msg, p.loc, ctxt), cj()));
        return out;
    }
    match ok_at {
        None => out.push(Viol::new(
            "no-recovery-within-peer-timeout-plus-retry-horizon",
            format!("{} s after delivery became reliable the configured pairs {:?} are not all mutually connected", bound, configured),
            cj(),
        )),
        Some(_) => {
            // payload in both directions of every configured pair (a few seconds for the replay windows / rotation to settle)
            sim.run(3);
            for (i, j) in &configured {
                for (a, b) in [(*i, *j), (*j, *i)] {
                    for x in 0..n {
                        sim.take_iface(x);
                    }
                    let f = eth_frame([2, 0, 0, 0, 1, b as u8], [2, 0, 0, 0, 1, a as u8], None, format!("probe {}->{}", a, b).as_bytes());
                    sim.put_payload(a, f.clone());
                    sim.settle();
                    if sim.take_iface(b) != vec![f] {
                        out.push(Viol::new("connected-but-payload-does-not-cross", format!("probe frame {}->{} not delivered exactly once after recovery", a, b), cj()));
                    }
                }
            }
        }
    }
    if faults.get() > 0 {
        ctx.nontrivial(&format!("{:?}", c));
    }
    if blackout > 0 {
        ctx.class(&format!("adversarial:blackout>={}s", (blackout / 1000) * 1000));
    } else {
        ctx.class(&format!("adversarial:faults>={}", (faults.get() / 10) * 10));
    }
    out
}

pub fn c05_node(ctx: &Ctx) {
    let n: u32 = ctx.tier.pick(500, 6_000);
    ctx.proptest(
        "pt-c05-node",
        n,
        || {
            (
                2u8..=3,
                proptest::collection::vec(prop_oneof![3 => Just(0u8), 1 => any::<u8>()], 1..200),
                any::<u16>(),
                any::<[u8; 3]>(),
                proptest::collection::vec((0u8..3, 0u8..3, 0u16..150, prop_oneof![1u16..30, 100u16..200]), 0..3),
            )
        },
        |(nodes, fates, secs, edges, outages)| {
            let c = C05Node { nodes: *nodes, fates: fates.clone(), adversarial_seconds: *secs, edges: *edges, outages: outages.clone(), blackout: 0 };
            let v = c05_node_case(ctx, &c);
            if fates.len() < 8 {
                ctx.sample("adversarial-network", || serde_json::to_value(&c).unwrap());
            }
            v
        },
    );
    ctx.subspace("node level: 2-3 nodes with configured peers, per-datagram drop/duplicate/delay<=90 s/reorder and one-way outages of up to 200 s, then reliable", n as u64, false);
    // directed: a one-way outage longer than the handshake retry horizon, in each direction, starting at each of a few offsets
    let mut directed = vec![];
    for (a, b) in [(0u8, 1u8), (1, 0)] {
        for start in [0u16, 1, 2, 5] {
            for len in [60u16, 119, 125, 180] {
                directed.push(C05Node { nodes: 2, fates: vec![0], adversarial_seconds: 0, edges: [0, 0, 0], outages: vec![(a, b, start, len)], blackout: 0 });
            }
        }
    }
    // ... and staggered outages from the very first datagram: nothing gets through for l1 seconds, then one direction
    // only for another `extra` seconds (a whole attempt is lost while the other end's state of that attempt survives);
    // with the configuration on one side or on both (then both ends dial)
    for (a, b) in [(0u8, 1u8), (1, 0)] {
        for l1 in [10u16, 30, 60, 100, 119, 150] {
            for extra in [5u16, 20, 30, 60, 100] {
                for edges in [[0u8, 0, 0], [0b010, 0b001, 0]] {
                    directed.push(C05Node { nodes: 2, fates: vec![0], adversarial_seconds: 0, edges, outages: vec![(a, b, 0, l1), (b, a, 0, (l1 + extra).min(199))], blackout: 0 });
                }
            }
        }
    }
    let nd = directed.len() as u64;
    ctx.par_items(&directed, |_, c| {
        let v = c05_node_case(ctx, c);
        ctx.report(v);
    });
    ctx.subspace("node level: one-way outage during the handshake (both directions x 4 start offsets x lengths 60/119/125/180 s) and staggered two-way outages from the first datagram (6 x 5 lengths x both directions x one- / two-sided configuration), then reliable", nd, true);
    // total blackouts of minutes to hours between established, configured peers: peers time out, handshakes give up,
    // only the reconnect schedule of configured peers keeps dialling; when the network returns the pairs must be back
    // within the same bound (2 and 3 nodes, configuration on one side or on both)
    let mut black = vec![];
    for nodes in [2u8, 3] {
        for edges in [[0u8, 0, 0], [0b010, 0b001, 0], [0b110, 0b101, 0b011]] {
            for blackout in ctx.tier.pick(vec![330u16, 450, 700, 1000, 1400, 1700, 2500, 3500, 5000], vec![301u16, 330, 400, 450, 560, 700, 850, 1000, 1200, 1400, 1700, 2100, 2500, 3000, 3500, 4200, 5000]) {
                black.push(C05Node { nodes, fates: vec![0], adversarial_seconds: 0, edges, outages: vec![], blackout });
            }
        }
    }
    let nb = black.len() as u64;
    ctx.par_items(&black, |_, c| {
        let v = c05_node_case(ctx, c);
        ctx.report(v);
    });
    ctx.subspace("node level: total blackout of 5 min to 83 min between established configured peers (2-3 nodes, one- / two-sided configuration), then reliable", nb, true);
}

// =====================================================================================
// C11 node level: router mode, overlapping claims, dropped-payload counter
// =====================================================================================

#[derive(Clone, Debug, Serialize, Deserialize)]
pub struct C11Node {
    /// destination addresses (last three octets) of packets read at node 0
    pub dsts: Vec<[u8; 3]>,
}

pub fn c11_node_case(ctx: &Ctx, c: &C11Node) -> Vec<Viol> {
    ctx.eval();
    let cj = || json!({"kind": "c11-node", "case": c});
    let mut out = vec![];
    let mut sim: NetSim<Packet> = NetSim::new();
    let claims: [&[&str]; 3] = [&["10.9.0.0/16"], &["10.0.0.0/8", "10.1.2.0/24"], &["10.1.0.0/16", "10.1.2.3/32"]];
    for cl in claims.iter() {
        let mut cfg = base_config();
        cfg.mode = Mode::Router;
        cfg.auto_claim = false;
        cfg.claims = cl.iter().map(|s| s.to_string()).collect();
        sim.add_node(&cfg, false);
    }
    let (a1, a2) = (sim.addr(1), sim.addr(2));
    sim.connect(0, a1);
    sim.connect(0, a2);
    sim.connect(1, a2);
    sim.settle();
    sim.run(2);
    if !sim.all_connected() {
        out.push(Viol::new("c11-node-setup", "mesh not connected".to_string(), cj()));
        return out;
    }
    sim.record = true;
    let ranges: Vec<(usize, Range)> = claims.iter().enumerate().flat_map(|(i, l)| l.iter().map(move |s| (i, s.parse::<Range>().unwrap()))).collect();
    let mut dropped_expect = (0u64, 0usize);
    for d in &c.dsts {
        let dst = [10, d[0], d[1], d[2]];
        let p = ipv4_packet([10, 9, 0, 1], dst, b"c11-node-probe");
        let before = sim.wire_log.len();
        sim.put_payload(0, p.clone());
        let sent: Vec<SocketAddr> = sim.wire_log[before..].iter().map(|x| x.dst).collect();
        sim.settle();
        for n in 0..3 {
            sim.take_iface(n);
        }
        // reference: longest prefix among the claims of the *other* nodes
        let best = ranges
            .iter()
            .filter(|(i, r)| *i != 0 && crate::props::c11::ref_matches(&r.base.data[..4], r.prefix_len, &dst))
            .max_by_key(|(_, r)| r.prefix_len);
        match best {
            Some((owner, r)) => {
                if sent != vec![sim.addr(*owner)] {
                    out.push(Viol::new(
                        "packet-not-sent-to-most-specific-claim",
                        format!("packet to {:?}: sent to {:?}, the most specific claim {} belongs to node {}", dst, sent, r, owner),
                        cj(),
                    ));
                }
            }
            None => {
                dropped_expect.0 += p.len() as u64;
                dropped_expect.1 += 1;
                if !sent.is_empty() {
                    out.push(Viol::new("unroutable-packet-sent", format!("packet to {:?} has no claim but was sent to {:?}", dst, sent), cj()));
                }
            }
        }
    }
    let got = sim.nodes[0].node.verif_dropped_payload();
    if got != dropped_expect {
        out.push(Viol::new(
            "dropped-payload-counter-wrong",
            format!("dropped payload counter (bytes, packets) = {:?}, expected {:?}", got, dropped_expect),
            cj(),
        ));
    }
    ctx.nontrivial(&c.dsts);
    out
}

pub fn c11_node(ctx: &Ctx) {
    let n: u32 = ctx.tier.pick(800, 8_000);
    let pool: Vec<[u8; 3]> = vec![[1, 2, 3], [1, 2, 4], [1, 3, 1], [0, 0, 1], [2, 0, 1], [9, 0, 2], [1, 2, 0], [255, 255, 255]];
    ctx.proptest(
        "pt-c11-node",
        n,
        || proptest::collection::vec(prop_oneof![3 => (0usize..8).prop_map(|i| i as u16 + 1000), 1 => any::<u16>()], 1..12),
        |sel| {
            let dsts: Vec<[u8; 3]> = sel.iter().map(|s| if *s >= 1000 && (*s as usize) < 1008 { pool[*s as usize - 1000] } else { [(*s >> 8) as u8 % 4, (*s & 0xff) as u8 % 4, (*s % 7) as u8] }).collect();
            c11_node_case(ctx, &C11Node { dsts })
        },
    );
    ctx.subspace("node level: router mode, 3 nodes with nested claims, packets to every nesting level; dropped-payload counter", n as u64, false);
    // destinations outside every claim (11.x) are produced by the unknown-destination pool below
    let v = c11_node_case(ctx, &C11Node { dsts: vec![[1, 2, 3], [1, 2, 9], [1, 9, 9], [9, 9, 9]] });
    ctx.report(v);
    // one run through the statistics file itself (what a user reads)
    let v = c11_stats_file(ctx);
    ctx.report(v);
}

fn c11_stats_file(ctx: &Ctx) -> Vec<Viol> {
    ctx.eval();
    let mut out = vec![];
    let path = std::env::temp_dir().join(format!("vverif-stats-{}-{:?}", std::process::id(), std::thread::current().id()));
    let file = match std::fs::OpenOptions::new().create(true).truncate(true).read(true).write(true).open(&path) {
        Ok(f) => f,
        Err(_) => return out,
    };
    let mut cfg = base_config();
    cfg.mode = Mode::Router;
    cfg.auto_claim = false;
    cfg.listen = sim_addr(0).to_string();
    vpncloud::util::MockTimeSource::set_time(crate::sim::T0);
    let mut node: crate::sim::Node<Packet> = crate::sim::Node::new(&cfg, vpncloud::net::MockSocket::new(sim_addr(0)), vpncloud::device::MockDevice::new(), None, Some(file));
    node.verif_initialize();
    let mut total = 0usize;
    for k in 0..5u8 {
        let p = ipv4_packet([10, 9, 0, 1], [10, 77, 0, k], &vec![k; 10 + k as usize]);
        total += p.len();
        node.verif_device().put_inbound(p);
        let mut buf = crate::sim::new_buf();
        node.verif_device_event(&mut buf);
    }
    vpncloud::util::MockTimeSource::set_time(crate::sim::T0 + 100);
    let _ = node.verif_housekeep();
    let text = std::fs::read_to_string(&path).unwrap_or_default();
    std::fs::remove_file(&path).ok();
    let want = format!("bytes: {}, packets: 5", total);
    if !text.lines().any(|l| l.contains("dropped_payload") && l.contains(&want)) {
        out.push(Viol::new(
            "dropped-payload-not-in-statistics-file",
            format!("statistics file does not report {:?} for dropped payload: {:?}", want, text.lines().filter(|l| l.contains("dropped")).collect::<Vec<_>>()),
            json!({"kind": "c11-stats"}),
        ));
    }
    out
}

// =====================================================================================
// C12 node level: scripted peer restarts with other claims, goes silent, closes, fails a 2nd handshake
// =====================================================================================

#[derive(Clone, Copy, Debug, Serialize, Deserialize, PartialEq)]
pub enum PeerAct {
    /// re-announce this subset of the 4-claim universe
    Announce(u8),
    /// the peer restarts on the same address (new session) announcing this subset, handshake completes
    Restart(u8),
    /// a new handshake starts from the peer's address (ping only), then nothing more
    HalfRestart,
    /// nothing for n seconds
    Silent(u16),
    Close,
    /// packets towards each claim of the universe are read from the interface
    Traffic,
}

#[derive(Clone, Debug, Serialize, Deserialize)]
pub struct C12Node {
    pub acts: Vec<PeerAct>,
}

fn c12_universe() -> Vec<Range> {
    ["10.1.0.0/16", "10.2.0.0/16", "10.1.2.0/24", "10.3.0.0/16"].iter().map(|s| s.parse().unwrap()).collect()
}

fn c12_info(id: u8, subset: u8) -> NodeInfo {
    let uni = c12_universe();
    NodeInfo {
        node_id: node_id(id),
        peers: smallvec![],
        claims: (0..4).filter(|i| subset & (1 << i) != 0).map(|i| uni[i]).collect(),
        peer_timeout: Some(300),
        addrs: smallvec![],
    }
}

pub fn c12_node_case(ctx: &Ctx, c: &C12Node) -> Vec<Viol> {
    ctx.eval();
    let cj = || json!({"kind": "c12-node", "case": c});
    let mut out = vec![];
    let uni = c12_universe();
    let mut sim: NetSim<Packet> = NetSim::new();
    let mut cfg = base_config();
    cfg.mode = Mode::Router;
    cfg.auto_claim = false;
    cfg.claims = vec!["10.9.0.0/16".into()];
    sim.add_node(&cfg, false);
    let s_addr: SocketAddr = "[fd00::77]:7777".parse().unwrap();
    let mut session = 0u8;
    let mut peer = ScriptedPeer::new(s_addr, "test123", c12_info(50, 0b0011));
    if !peer.connect(&mut sim, 0) {
        out.push(Viol::new("c12-node-setup", "scripted peer could not connect".to_string(), cj()));
        return out;
    }
    // model
    let mut announced: Option<u8> = Some(0b0011);
    let mut last_refresh = sim.now;
    let mut shrink_or_leave = false;
    let mut check = |sim: &mut NetSim<Packet>, announced: Option<u8>, last_refresh: i64, step: &str, out: &mut Vec<Viol>| {
        let is_peer = sim.nodes[0].node.verif_peers().iter().any(|p| p.addr == s_addr);
        let (claims, cache) = sim.nodes[0].node.verif_table().verif_dump();
        let have: Vec<usize> = (0..4).filter(|i| claims.iter().any(|(p, r, _)| *p == s_addr && *r == uni[*i])).collect();
        let age = sim.now - last_refresh;
        if !is_peer {
            if !have.is_empty() || cache.iter().any(|(_, p, _)| *p == s_addr) {
                out.push(Viol::new(
                    "routes-point-at-removed-peer",
                    format!("{}: {} is no longer a peer but the table still holds its claims {:?} / cached decisions", step, s_addr, have.iter().map(|i| uni[*i].to_string()).collect::<Vec<_>>()),
                    cj(),
                ));
            }
        } else if let Some(a) = announced {
            let want: Vec<usize> = (0..4).filter(|i| a & (1 << i) != 0).collect();
            let ok = if age < 300 { have == want } else if age == 300 { have == want || have.is_empty() } else { have.is_empty() };
            if !ok {
                out.push(Viol::new(
                    "claims-differ-from-last-announcement-at-node",
                    format!("{}: peer announced {:?}, table attributes {:?} to it (age {} s)", step, want, have, age),
                    cj(),
                ));
            }
        }
    };
    for (i, a) in c.acts.iter().enumerate() {
        let step = format!("step {} {:?}", i, a);
        match *a {
            PeerAct::Announce(s) => {
                if peer.connected && sim.nodes[0].node.verif_peers().iter().any(|p| p.addr == s_addr) {
                    let info = c12_info(50 + session, s & 0xf);
                    peer.send_node_info(&mut sim, 0, &info);
                    if let Some(old) = announced {
                        if old & !(s & 0xf) != 0 {
                            shrink_or_leave = true;
                        }
                    }
                    announced = Some(s & 0xf);
                    last_refresh = sim.now;
                }
            }
            PeerAct::Restart(s) => {
                session += 1;
                peer = ScriptedPeer::new(s_addr, "test123", c12_info(50 + session, s & 0xf));
                if peer.connect(&mut sim, 0) {
                    if let Some(old) = announced {
                        if old & !(s & 0xf) != 0 {
                            shrink_or_leave = true;
                        }
                    }
                    announced = Some(s & 0xf);
                    last_refresh = sim.now;
                }
            }
            PeerAct::HalfRestart => {
                session += 1;
                let mut ghost = ScriptedPeer::new(s_addr, "test123", c12_info(50 + session, 0b1111));
                let mut buf = crate::sim::new_buf();
                if ghost.crypto.initialize(&mut buf).is_ok() {
                    sim.deliver_to(0, s_addr, buf.message().to_vec());
                    sim.settle();
                    sim.stray.clear();
                }
                shrink_or_leave = true;
            }
            PeerAct::Silent(n) => {
                for _ in 0..(n % 400) {
                    sim.tick();
                    // the live session keeps its window/rotation clock but says nothing
                    sim.stray.clear();
                }
                if sim.now - last_refresh > 300 {
                    announced = None;
                    shrink_or_leave = true;
                }
            }
            PeerAct::Close => {
                if peer.connected {
                    peer.send(&mut sim, 0, vpncloud::messages::MESSAGE_TYPE_CLOSE, &[]);
                    if !sim.nodes[0].node.verif_peers().iter().any(|p| p.addr == s_addr) {
                        announced = None;
                        shrink_or_leave = true;
                    }
                }
            }
            PeerAct::Traffic => {
                for k in 1..=3u8 {
                    for third in [0u8, 2] {
                        // handle_interface_data's error is only logged by the event handler; call it directly to see it
                        let pkt = ipv4_packet([10, 9, 0, 1], [10, k, third, 7], b"c12");
                        let mut data = crate::sim::new_buf();
                        data.set_length(pkt.len());
                        data.message_mut().copy_from_slice(&pkt);
                        let r = crate::sim::catch(|| sim.nodes[0].node.handle_interface_data(&mut data));
                        sim.flush(0);
                        sim.settle();
                        sim.stray.clear();
                        match r {
                            Err(p) => out.push(Viol::new(format!("node-{}", p.sig()), format!("{}: panic {}", step, p.msg), cj())),
                            Ok(Err(e)) => {
                                if e.to_string().contains("not a peer") {
                                    out.push(Viol::new(
                                        "non-peer-selected-as-next-hop",
                                        format!("{}: a packet to 10.{}.{}.7 was routed to a node that is not a peer: {}", step, k, third, e),
                                        cj(),
                                    ));
                                }
                            }
                            Ok(Ok(())) => {}
                        }
                    }
                }
            }
        }
        check(&mut sim, announced, last_refresh, &step, &mut out);
        if let Some((_, p, ctxt)) = sim.panics.first() {
            out.push(Viol::new(format!("node-{}", p.sig()), format!("{}: node panicked: {} ({})", step, p.msg, ctxt), cj()));
        }
        if !out.is_empty() {
            return out;
        }
        // after a timeout/close the node may re-dial; the ghost never answers
        if !sim.nodes[0].node.verif_peers().iter().any(|p| p.addr == s_addr) {
            announced = None;
            peer.connected = false;
        }
    }
    if shrink_or_leave {
        ctx.nontrivial(&format!("{:?}", c.acts));
    }
    out
}

/// The same kind of history against a switch-mode node: the scripted peer announces no claims, its routes at
/// the node are addresses learned from the frames it sends (PeerAct::Announce(x) = a frame with source MAC x).
pub fn c12_switch_case(ctx: &Ctx, c: &C12Node) -> Vec<Viol> {
    ctx.eval();
    let cj = || json!({"kind": "c12-switch", "case": c});
    let mut out = vec![];
    let mut sim: NetSim<Frame> = NetSim::new();
    let mut cfg = base_config();
    cfg.mode = Mode::Switch;
    cfg.auto_claim = false;
    sim.add_node(&cfg, false);
    sim.add_node(&cfg, false); // a second, healthy peer so that flooding has somewhere to go
    let a1 = sim.addr(1);
    sim.connect(0, a1);
    sim.settle();
    let s_addr: SocketAddr = "[fd00::77]:7777".parse().unwrap();
    let mut session = 0u8;
    let mut peer = ScriptedPeer::new(s_addr, "test123", c12_info(50, 0));
    if !peer.connect(&mut sim, 0) {
        out.push(Viol::new("c12-node-setup", "scripted peer could not connect".to_string(), cj()));
        return out;
    }
    let mut interesting = false;
    for (i, a) in c.acts.iter().enumerate() {
        let step = format!("step {} {:?}", i, a);
        let is_peer = |sim: &NetSim<Frame>| sim.nodes[0].node.verif_peers().iter().any(|p| p.addr == s_addr);
        match *a {
            PeerAct::Announce(x) => {
                if peer.connected && is_peer(&sim) {
                    let f = eth_frame([0xff; 6], [2, 0x55, 0, 0, 0, x % 4], None, b"from scripted peer");
                    peer.send(&mut sim, 0, vpncloud::messages::MESSAGE_TYPE_DATA, &f);
                    sim.take_iface(0);
                }
            }
            PeerAct::Restart(_) => {
                session += 1;
                peer = ScriptedPeer::new(s_addr, "test123", c12_info(50 + session, 0));
                peer.connect(&mut sim, 0);
            }
            PeerAct::HalfRestart => {
                session += 1;
                let mut ghost = ScriptedPeer::new(s_addr, "test123", c12_info(50 + session, 0));
                let mut buf = crate::sim::new_buf();
                if ghost.crypto.initialize(&mut buf).is_ok() {
                    sim.deliver_to(0, s_addr, buf.message().to_vec());
                    sim.settle();
                    sim.stray.clear();
                }
            }
            PeerAct::Silent(n) => {
                for _ in 0..(n % 400) {
                    sim.tick();
                    sim.stray.clear();
                }
            }
            PeerAct::Close => {
                if peer.connected {
                    peer.send(&mut sim, 0, vpncloud::messages::MESSAGE_TYPE_CLOSE, &[]);
                }
            }
            PeerAct::Traffic => {
                for x in 0..4u8 {
                    let f = eth_frame([2, 0x55, 0, 0, 0, x], [2, 0x66, 0, 0, 0, 1], None, b"to a learned address");
                    let mut data = crate::sim::new_buf();
                    data.set_length(f.len());
                    data.message_mut().copy_from_slice(&f);
                    let r = crate::sim::catch(|| sim.nodes[0].node.handle_interface_data(&mut data));
                    sim.flush(0);
                    sim.settle();
                    sim.stray.clear();
                    sim.take_iface(1);
                    if let Ok(Err(e)) = r {
                        if e.to_string().contains("not a peer") {
                            out.push(Viol::new(
                                "non-peer-selected-as-next-hop",
                                format!("{}: a frame to a learned address was routed to a node that is not a peer: {}", step, e),
                                cj(),
                            ));
                        }
                    }
                }
            }
        }
        let gone = !is_peer(&sim);
        if gone {
            interesting = true;
            peer.connected = false;
            let (claims, cache) = sim.nodes[0].node.verif_table().verif_dump();
            if claims.iter().any(|(p, _, _)| *p == s_addr) || cache.iter().any(|(_, p, _)| *p == s_addr) {
                out.push(Viol::new(
                    "routes-point-at-removed-peer",
                    format!("{}: {} is no longer a peer but learned addresses still point at it: {:?}", step, s_addr, cache.iter().filter(|(_, p, _)| *p == s_addr).map(|(a, _, _)| a.to_string()).collect::<Vec<_>>()),
                    cj(),
                ));
            }
        }
        if let Some((_, p, ctxt)) = sim.panics.first() {
            out.push(Viol::new(format!("node-{}", p.sig()), format!("{}: node panicked: {} ({})", step, p.msg, ctxt), cj()));
        }
        if !out.is_empty() {
            return out;
        }
    }
    if interesting {
        ctx.nontrivial(&("switch", format!("{:?}", c.acts)));
    }
    out
}

fn peer_act_strategy() -> impl Strategy<Value = PeerAct> {
    prop_oneof![
        4 => (0u8..16).prop_map(PeerAct::Announce),
        2 => (0u8..16).prop_map(PeerAct::Restart),
        2 => Just(PeerAct::HalfRestart),
        3 => prop_oneof![Just(1u16), Just(60), Just(121), Just(125), Just(299), Just(300), Just(301), Just(302), 0u16..400].prop_map(PeerAct::Silent),
        1 => Just(PeerAct::Close),
        4 => Just(PeerAct::Traffic),
    ]
}

pub fn c12_node(ctx: &Ctx) {
    // directed scenarios first
    let scenarios: Vec<Vec<PeerAct>> = vec![
        vec![PeerAct::Traffic, PeerAct::Announce(0b0001), PeerAct::Traffic],
        vec![PeerAct::Traffic, PeerAct::Restart(0b0100), PeerAct::Traffic],
        vec![PeerAct::Traffic, PeerAct::Close, PeerAct::Traffic],
        vec![PeerAct::Traffic, PeerAct::Silent(302), PeerAct::Traffic],
        vec![PeerAct::Traffic, PeerAct::HalfRestart, PeerAct::Silent(125), PeerAct::Traffic, PeerAct::Silent(5), PeerAct::Traffic],
        vec![PeerAct::HalfRestart, PeerAct::Traffic, PeerAct::Silent(121), PeerAct::Traffic],
    ];
    for s in &scenarios {
        let v = c12_node_case(ctx, &C12Node { acts: s.clone() });
        ctx.report(v);
    }
    ctx.sample("scripted-peer-scenario", || json!(format!("{:?}", scenarios[4])));
    ctx.subspace("node level: 6 directed scripted-peer scenarios (shrink, restart, close, silence, failing second handshake)", scenarios.len() as u64, true);
    let n: u32 = ctx.tier.pick(1_000, 12_000);
    ctx.proptest("pt-c12-node", n, || proptest::collection::vec(peer_act_strategy(), 1..10), |acts| c12_node_case(ctx, &C12Node { acts: acts.clone() }));
    ctx.subspace("node level: proptest scripted-peer histories (announce / restart / half restart / silence / close / traffic)", n as u64, false);
    // switch mode: routes are learned addresses
    let sw: Vec<Vec<PeerAct>> = vec![
        vec![PeerAct::Announce(1), PeerAct::Traffic, PeerAct::Close, PeerAct::Traffic],
        vec![PeerAct::Announce(1), PeerAct::Announce(2), PeerAct::Silent(302), PeerAct::Traffic],
        vec![PeerAct::Announce(3), PeerAct::HalfRestart, PeerAct::Silent(125), PeerAct::Traffic],
        vec![PeerAct::Announce(0), PeerAct::Restart(0), PeerAct::Traffic, PeerAct::Close, PeerAct::Traffic],
    ];
    for sc in &sw {
        let v = c12_switch_case(ctx, &C12Node { acts: sc.clone() });
        ctx.report(v);
    }
    let n2: u32 = ctx.tier.pick(400, 6_000);
    ctx.proptest("pt-c12-switch", n2, || proptest::collection::vec(peer_act_strategy(), 1..10), |acts| c12_switch_case(ctx, &C12Node { acts: acts.clone() }));
    ctx.subspace("node level, switch mode: scripted peer without claims whose frames are learned, then close / silence / restart / failing handshake", n2 as u64 + 4, false);
}

// =====================================================================================

pub fn replay(ctx: &Ctx, case: &Value) {
    let v = match case["kind"].as_str() {
        Some("c01-node") => serde_json::from_value::<C01Node>(case["case"].clone()).map(|c| c01_node_case(ctx, &c)).unwrap_or_default(),
        Some("c01-plain") => serde_json::from_value::<C01Plain>(case["case"].clone()).map(|c| c01_plain_case(ctx, &c)).unwrap_or_default(),
        Some("c02-restart") => serde_json::from_value::<C02Restart>(case["case"].clone()).map(|c| c02_restart_case(ctx, &c)).unwrap_or_default(),
        Some("c02-node") => serde_json::from_value::<C02Node>(case["case"].clone()).map(|c| c02_node_case(ctx, &c)).unwrap_or_default(),
        Some("c03-node") => c03_node_case(ctx, case["k"].as_u64().unwrap_or(0) as u32, case["newer_between"].as_bool().unwrap_or(false), case["receiver_is_initiator"].as_bool().unwrap_or(false)),
        Some("c05-node") => serde_json::from_value::<C05Node>(case["case"].clone()).map(|c| c05_node_case(ctx, &c)).unwrap_or_default(),
        Some("c11-node") => serde_json::from_value::<C11Node>(case["case"].clone()).map(|c| c11_node_case(ctx, &c)).unwrap_or_default(),
        Some("c11-stats") => c11_stats_file(ctx),
        Some("c12-node") => serde_json::from_value::<C12Node>(case["case"].clone()).map(|c| c12_node_case(ctx, &c)).unwrap_or_default(),
        Some("c12-switch") => serde_json::from_value::<C12Node>(case["case"].clone()).map(|c| c12_switch_case(ctx, &c)).unwrap_or_default(),
        _ => vec![],
    };
    ctx.report(v);
    let _ = hex(&[]);
}
