//! C07 - key rotation never strands traffic and keeps keys fresh.
//! All schedules of rotation cycles / deliveries / duplicates / drops to a tier depth on a real,
//! freshly handshaken PeerCrypto pair; after every step each end seals a probe that the other must open.

use crate::engine::{Ctx, Viol};
use crate::sim::{catch, PairSim};
use proptest::prelude::*;
use serde::{Deserialize, Serialize};
use serde_json::{json, Value};

#[derive(Clone, Copy, Debug, Serialize, Deserialize, PartialEq, Eq, Hash)]
pub enum Act {
    /// one rotation interval (120 housekeeping ticks) at A / B
    CycleA,
    CycleB,
    /// n single ticks at A / B (relative timing of the two ends)
    TicksA(u8),
    TicksB(u8),
    Deliver(u8),
    DeliverNewest,
    Dup(u8),
    Drop(u8),
}

#[derive(Clone, Debug, Serialize, Deserialize)]
pub struct Case {
    pub orientation: bool,
    /// which end initiates the handshake (the other one starts rotation)
    pub initiator: u8,
    pub acts: Vec<Act>,
    /// lossless alternating cycles appended at the end (freshness clause); 0 = none
    pub lossless_cycles: u32,
    /// how the connection came about: 0 = `initiator` dials; 1 = both ends dial at the same moment (crossing pings,
    /// the tie-break makes one of them the responder); 2 = crossing pings, but the loser's ping is delivered first
    #[serde(default)]
    pub start: u8,
}

pub struct Outcome {
    pub viols: Vec<Viol>,
    pub inflight: usize,
    pub key_changes: [u32; 2],
    pub lost_or_dup: bool,
}

fn cj(c: &Case) -> Value {
    json!({"kind": "rotation", "case": c})
}

fn cycle(sim: &mut PairSim, side: usize, ticks: u32) {
    for _ in 0..ticks {
        sim.tick(side);
    }
}

pub fn run_case(ctx: &Ctx, c: &Case) -> Outcome {
    ctx.eval();
    let mut viols = vec![];
    let mut key_changes = [0u32; 2];
    let mut inflight = 0;
    let mut lost_or_dup = false;
    let r = catch(|| {
        let mut sim = PairSim::simple(Some(c.orientation));
        let ini = (c.initiator % 2) as usize;
        if c.start % 3 == 0 {
            // handshake; the responder's first rotation message stays in flight
            sim.init(ini);
            sim.deliver(0); // ping
            sim.deliver(0); // pong
            sim.deliver(0); // peng -> responder completes and emits rotation message 1
        } else {
            // simultaneous open: both pings are on the wire before either arrives
            sim.init(0);
            sim.init(1);
            if c.start % 3 == 2 {
                sim.inflight.swap(0, 1);
            }
            sim.deliver(0);
            sim.deliver(0);
            for _ in 0..6 {
                if sim.both_ready() {
                    break;
                }
                if sim.inflight.is_empty() {
                    sim.tick(0);
                    sim.tick(1);
                } else {
                    sim.deliver(0);
                }
            }
        }
        if !sim.both_ready() {
            viols.push(Viol::new("setup-handshake-failed", "plain handshake did not complete".to_string(), cj(c)));
            return;
        }
        let mut last_key: [Option<u8>; 2] = [None, None];
        let mut probe_both = |sim: &mut PairSim, step: &str, viols: &mut Vec<Viol>, key_changes: &mut [u32; 2]| -> bool {
            for from in 0..2 {
                match sim.seal_probe(from) {
                    Err(e) => {
                        viols.push(Viol::new("probe-seal-failed", format!("{}: {}", step, e), cj(c)));
                        return false;
                    }
                    Ok((wire, payload)) => {
                        let kid = wire[0];
                        if let Some(k) = last_key[from] {
                            if k != kid {
                                key_changes[from] += 1;
                            }
                        }
                        last_key[from] = Some(kid);
                        // open at the other end
                        let before = sim.events.len();
                        let r = sim.feed(1 - from, &wire);
                        let opened = matches!(r, Ok("message"))
                            && matches!(sim.events.last(), Some(crate::sim::Event::Data { payload: p, .. }) if *p == payload);
                        sim.events.truncate(before);
                        if !opened {
                            viols.push(Viol::new(
                                "fresh-payload-not-decryptable",
                                format!("{}: probe sealed by end {} under key id {} does not open at the peer: {:?}", step, from, kid, r),
                                cj(c),
                            ));
                            return false;
                        }
                    }
                }
            }
            true
        };
        if !probe_both(&mut sim, "after handshake", &mut viols, &mut key_changes) {
            return;
        }
        for (i, a) in c.acts.iter().enumerate() {
            match *a {
                Act::CycleA => cycle(&mut sim, 0, 120),
                Act::CycleB => cycle(&mut sim, 1, 120),
                Act::TicksA(n) => cycle(&mut sim, 0, n as u32),
                Act::TicksB(n) => cycle(&mut sim, 1, n as u32),
                Act::Deliver(k) => {
                    sim.deliver(k as usize);
                }
                Act::DeliverNewest => {
                    let n = sim.inflight.len();
                    if n > 0 {
                        sim.deliver(n - 1);
                    }
                }
                Act::Dup(k) => {
                    if sim.dup(k as usize).is_some() {
                        lost_or_dup = true;
                    }
                }
                Act::Drop(k) => {
                    if sim.drop_msg(k as usize) {
                        lost_or_dup = true;
                    }
                }
            }
            if !probe_both(&mut sim, &format!("after step {} ({:?})", i, a), &mut viols, &mut key_changes) {
                return;
            }
        }
        inflight = sim.inflight.len();
        if c.lossless_cycles > 0 {
            // drop what is still in flight (counts as loss), then a lossless stretch of alternating cycles
            sim.inflight.clear();
            let before = key_changes;
            // two warm-up rounds absorb the resend of a proposal lost before the stretch ("a loss only delays")
            for _ in 0..2 {
                for side in 0..2 {
                    cycle(&mut sim, side, 120);
                    sim.settle();
                }
            }
            let start = key_changes;
            let _ = before;
            for r in 0..c.lossless_cycles {
                let side = (r % 2) as usize;
                cycle(&mut sim, side, 120);
                sim.settle();
                if !probe_both(&mut sim, &format!("lossless cycle {}", r), &mut viols, &mut key_changes) {
                    return;
                }
            }
            let k = c.lossless_cycles / 2;
            for d in 0..2 {
                let changes = key_changes[d] - start[d];
                if changes + 1 < k {
                    viols.push(Viol::new(
                        "keys-not-refreshed",
                        format!("direction {}: only {} key changes in {} lossless alternating rotation cycles (at least {} expected)", d, changes, c.lossless_cycles, k - 1),
                        cj(c),
                    ));
                }
            }
        }
    });
    if let Err(p) = r {
        viols.push(Viol::new(format!("rotation-{}", p.sig()), format!("panic: {} at {}", p.msg, p.loc), cj(c)));
    }
    Outcome { viols, inflight, key_changes, lost_or_dup }
}

fn explore(ctx: &Ctx, base: &Case, prefix: &mut Vec<Act>, depth: usize, count: &mut u64) {
    let c = Case { acts: prefix.clone(), ..base.clone() };
    let o = run_case(ctx, &c);
    *count += 1;
    if o.lost_or_dup && o.key_changes[0] + o.key_changes[1] >= 2 {
        ctx.nontrivial(&(base.orientation, base.initiator, &prefix[..]));
    }
    ctx.class(if o.lost_or_dup { "schedule:with-loss-or-duplicate" } else { "schedule:lossless" });
    if prefix.len() == 4 && o.lost_or_dup {
        ctx.sample("rotation-schedule", || json!({"acts": format!("{:?}", prefix), "key_changes": o.key_changes}));
    }
    if ctx.report(o.viols) || prefix.len() >= depth {
        return;
    }
    let mut children = vec![Act::CycleA, Act::CycleB];
    if o.inflight >= 1 {
        children.extend([Act::Deliver(0), Act::Dup(0), Act::Drop(0)]);
    }
    if o.inflight >= 2 {
        children.push(Act::DeliverNewest);
    }
    for a in children {
        prefix.push(a);
        explore(ctx, base, prefix, depth, count);
        prefix.pop();
    }
}

fn act_strategy() -> impl Strategy<Value = Act> {
    prop_oneof![
        4 => Just(Act::CycleA),
        4 => Just(Act::CycleB),
        1 => (1u8..130).prop_map(Act::TicksA),
        1 => (1u8..130).prop_map(Act::TicksB),
        5 => (0u8..3).prop_map(Act::Deliver),
        1 => Just(Act::DeliverNewest),
        1 => (0u8..3).prop_map(Act::Dup),
        1 => (0u8..3).prop_map(Act::Drop),
    ]
}

pub fn run(ctx: &Ctx) {
    ctx.rule(
        "schedules over {rotation cycle at A, cycle at B (120 real every_second calls each), partial tick runs, \
         deliver oldest/newest/any in-flight rotation datagram, duplicate, drop} on a freshly handshaken real \
         PeerCrypto pair (first rotation message in flight); after EVERY step each end seals a probe and the other \
         end must open it byte-identically. All canonical schedules to a tier depth (both handshake initiators), \
         proptest schedules over 100+ cycles followed by a lossless stretch in which the key id of each direction \
         must change at least every second cycle pair. Non-trivial = a lost or duplicated rotation datagram and >= 2 \
         observed key-id changes; distinct = (initiator, schedule).",
    );
    ctx.assume("a rotation datagram delayed past two ticks may be dropped by the replay window; the oracle never requires a particular rotation message to be accepted");
    ctx.assume("exhaustive depth is bounded by budget (depth 12 of the property text is 2e9 schedules); deeper histories are sampled by proptest");
    let depth: usize = ctx.tier.pick(7, 9);
    let mut tasks: Vec<(u8, Vec<Act>)> = vec![];
    for ini in 0..2u8 {
        for a in [Act::CycleA, Act::CycleB, Act::Deliver(0), Act::Dup(0), Act::Drop(0)] {
            for b in [Act::CycleA, Act::CycleB] {
                tasks.push((ini, vec![a, b]));
            }
        }
    }
    let total = std::sync::atomic::AtomicU64::new(0);
    // depth-1 nodes and deliveries at depth 2 are covered by the random part; the DFS starts from 2-step prefixes
    ctx.par_items(&tasks, |_, (ini, p)| {
        let base = Case { orientation: *ini == 0, initiator: *ini, acts: vec![], lossless_cycles: 0, start: 0 };
        let mut prefix = p.clone();
        let mut count = 0;
        explore(ctx, &base, &mut prefix, depth, &mut count);
        total.fetch_add(count, std::sync::atomic::Ordering::Relaxed);
    });
    ctx.subspace(&format!("all canonical rotation schedules up to depth {} below 20 two-step prefixes", depth), total.load(std::sync::atomic::Ordering::Relaxed), true);

    // connections that came about by a simultaneous open (either tie-break outcome, either arrival order): short
    // schedules exhaustively, each followed by the lossless stretch of the freshness clause
    {
        let mut cases = vec![];
        let alpha = [Act::CycleA, Act::CycleB, Act::Deliver(0), Act::Drop(0), Act::Dup(0), Act::TicksA(60), Act::TicksB(60)];
        let depth = ctx.tier.pick(3u32, 4);
        let total = (alpha.len() as u64).pow(depth);
        for orientation in [false, true] {
            for start in [1u8, 2] {
                for mut i in 0..total {
                    let mut acts = vec![];
                    for _ in 0..depth {
                        acts.push(alpha[(i % alpha.len() as u64) as usize]);
                        i /= alpha.len() as u64;
                    }
                    cases.push(Case { orientation, initiator: 0, acts, lossless_cycles: 8, start });
                }
            }
        }
        let nc = cases.len() as u64;
        ctx.par_items(&cases, |_, c| {
            let o = run_case(ctx, c);
            if o.key_changes[0] + o.key_changes[1] >= 2 {
                ctx.nontrivial(&("dual", c.orientation, c.start, &c.acts));
            }
            ctx.class("schedule:after-simultaneous-open");
            ctx.report(o.viols);
        });
        ctx.subspace(&format!("after a simultaneous open (2 tie-break outcomes x 2 arrival orders): all schedules of length {} over 7 actions + 8 lossless cycles (freshness)", depth), nc, true);
    }

    let n: u32 = ctx.tier.pick(1_200, 12_000);
    ctx.proptest(
        "pt-rotation",
        n,
        || (any::<bool>(), 0u8..2, proptest::collection::vec(act_strategy(), 0..260), prop_oneof![2 => Just(0u8), 1 => Just(1u8), 1 => Just(2u8)]),
        |(o, ini, acts, start)| {
            let c = Case { orientation: *o, initiator: *ini, acts: acts.clone(), lossless_cycles: 12, start: *start };
            let out = run_case(ctx, &c);
            if out.lost_or_dup && out.key_changes[0] + out.key_changes[1] >= 2 {
                ctx.nontrivial(&(o, ini, acts));
            }
            ctx.class(&format!("random:key-changes>={}", ((out.key_changes[0] + out.key_changes[1]) / 20) * 20));
            out.viols
        },
    );
    ctx.subspace("proptest schedules up to 260 steps (about 100 cycles) + 12 lossless alternating cycles", n as u64, false);

    // coverage-guided search over the same histories (libFuzzer target hist_c07: bytes -> operations -> this oracle);
    // the committed corpus is replayed in-process in every tier, the campaign runs in the thorough tier
    crate::targets::replay_corpus(ctx, "hist_c07");
    if std::env::var("VCHECK_FUZZ").is_ok() && !ctx.quick() {
        crate::fuzzdrv::run_campaign_par(ctx, "hist_c07", 160000, 16, 96);
    }
}

pub fn replay(ctx: &Ctx, case: &Value) {
    if crate::fuzzdrv::replay(ctx, case) {
        return;
    }
    if let Ok(c) = serde_json::from_value::<Case>(case["case"].clone()) {
        for _ in 0..8 {
            let o = run_case(ctx, &c);
            ctx.report(o.viols);
        }
    }
}
