//! One module per property; `run` executes the generated-input search, `replay` re-runs one
//! saved case through the plain interpreter (no generator library involved).
use crate::engine::Ctx;
use serde_json::Value;

pub mod c19;

pub const LEVEL: &str = "exploration";

pub fn run(id: &str, ctx: &Ctx) -> Option<&'static str> {
    match id {
        "C19" => c19::run(ctx),
        _ => return None,
    }
    Some(LEVEL)
}

pub fn replay(id: &str, ctx: &Ctx, case: &Value) -> Option<&'static str> {
    match id {
        "C19" => c19::replay(ctx, case),
        _ => return None,
    }
    Some(LEVEL)
}
