//! One module per property; `run` executes the generated-input search, `replay` re-runs one
//! saved case through the plain interpreter (no generator library involved).
use crate::engine::Ctx;
use serde_json::Value;

pub mod lab;
pub mod node_level;

pub const LEVEL: &str = "exploration";

macro_rules! props {
    ($( $id:literal => $m:ident ),* $(,)?) => {
        $( pub mod $m; )*
        pub fn run(id: &str, ctx: &Ctx) -> Option<&'static str> {
            match id {
                $( $id => { regress(id, ctx, $m::replay); $m::run(ctx) }, )*
                _ => return None,
            }
            Some(LEVEL)
        }
        pub fn replay(id: &str, ctx: &Ctx, case: &Value) -> Option<&'static str> {
            match id {
                $( $id => $m::replay(ctx, case), )*
                _ => return None,
            }
            Some(LEVEL)
        }
    };
}

/// Replay tier: every saved regression input of the property (minimal failing cases of defects found
/// earlier, of seeded breakages, fuzzer artefacts) is re-run first, through the plain interpreter.
fn regress(id: &str, ctx: &Ctx, f: fn(&Ctx, &Value)) {
    let dir = format!("{}/regress/{}", crate::engine::verif_dir(), id);
    let mut files: Vec<_> = match std::fs::read_dir(&dir) {
        Ok(d) => d.filter_map(|e| e.ok()).map(|e| e.path()).filter(|p| p.extension().map(|x| x == "json").unwrap_or(false)).collect(),
        Err(_) => return,
    };
    files.sort();
    let mut n = 0;
    for p in &files {
        if let Ok(text) = std::fs::read_to_string(p) {
            if let Ok(v) = serde_json::from_str::<Value>(&text) {
                let case = v.get("case").cloned().unwrap_or(v);
                f(ctx, &case);
                n += 1;
            }
        }
    }
    ctx.subspace("saved regression inputs (replay tier)", n, true);
}

props! {
    "C01" => c01,
    "C02" => c02,
    "C03" => c03,
    "C04" => c04,
    "C05" => c05,
    "C06" => c06,
    "C07" => c07,
    "C08" => c08,
    "C09" => c09,
    "C10" => c10,
    "C11" => c11,
    "C12" => c12,
    "C13" => c13,
    "C14" => c14,
    "C15" => c15,
    "C16" => c16,
    "C17" => c17,
    "C18" => c18,
    "C19" => c19,
    "C20" => c20,
}
