//! C12 - routes track peers: exactly the announced claims, nothing for the disconnected.
//! Table level: announcement sequences (all subsets and orders of a 4-claim universe, duplicates)
//! against "claims per peer == last announcement"; node level in `node_level::c12_node`.

use crate::engine::{Ctx, Viol};
use crate::props::c11::{peer_addr, ref_matches};
use crate::sim::{catch, T0};
use proptest::prelude::*;
use serde::{Deserialize, Serialize};
use serde_json::{json, Value};
use std::collections::{BTreeMap, BTreeSet};
use vpncloud::table::ClaimTable;
use vpncloud::types::{Address, Range};
use vpncloud::util::MockTimeSource;

#[derive(Clone, Debug, Serialize, Deserialize, PartialEq)]
pub enum Step {
    /// peer announces this list (indices into the claim universe; order and duplicates as given)
    Announce(u8, Vec<u8>),
    Disconnect(u8),
    /// look up every probe address (fills the decision cache)
    Probe,
    /// an address is learned from a peer (payload with that source arrived from it)
    Learn(u8, u8),
    Tick(u32),
}

#[derive(Clone, Debug, Serialize, Deserialize)]
pub struct Case {
    pub claim_timeout: u32,
    pub switch_timeout: u32,
    pub steps: Vec<Step>,
}

pub fn claim_universe() -> Vec<Range> {
    ["10.1.0.0/16", "10.2.0.0/16", "10.1.2.0/24", "fd00::/16"].iter().map(|s| s.parse().unwrap()).collect()
}

pub fn probe_addrs() -> Vec<Address> {
    ["10.1.0.1", "10.2.0.1", "10.1.2.1", "fd00::1", "10.3.0.1"].iter().map(|s| s.parse().unwrap()).collect()
}

fn contains(r: &Range, a: &Address) -> bool {
    ref_matches(&r.base.data[..r.base.len as usize], r.prefix_len, &a.data[..a.len as usize])
}

pub fn run_case(ctx: &Ctx, c: &Case) -> Vec<Viol> {
    ctx.eval();
    let uni = claim_universe();
    let probes = probe_addrs();
    let mut now = T0;
    MockTimeSource::set_time(now);
    let mut table: ClaimTable<MockTimeSource> = ClaimTable::new(c.switch_timeout, c.claim_timeout);
    // model: per peer the last announcement (set) and when it was made
    let mut last: BTreeMap<u8, (BTreeSet<u8>, i64)> = BTreeMap::new();
    let cj = || json!({"kind": "announce", "case": c});
    let mut out = vec![];
    let mut shrunk = false;
    let mut learned: BTreeMap<u8, (u8, i64)> = BTreeMap::new();
    for (si, step) in c.steps.iter().enumerate() {
        match step {
            Step::Announce(p, list) => {
                let l: Vec<u8> = list.iter().map(|x| *x % uni.len() as u8).collect();
                let set: BTreeSet<u8> = l.iter().copied().collect();
                if let Some((old, _)) = last.get(p) {
                    if !old.is_subset(&set) {
                        shrunk = true;
                    }
                }
                let ranges = l.iter().map(|x| uni[*x as usize]).collect();
                if let Err(pi) = catch(|| table.set_claims(peer_addr(*p), ranges)) {
                    out.push(Viol::new(format!("set-claims-{}", pi.sig()), format!("set_claims panicked: {}", pi.msg), cj()));
                    return out;
                }
                last.insert(*p, (set, now));
            }
            Step::Disconnect(p) => {
                table.remove_claims(peer_addr(*p));
                last.remove(p);
                learned.retain(|_, (q, _)| q != p);
                shrunk = true;
            }
            Step::Probe => {
                for a in &probes {
                    let r = table.lookup(*a);
                    if let Some(sa) = r {
                        let p = (0..4u8).find(|i| peer_addr(*i) == sa);
                        let ok = p
                            .and_then(|p| last.get(&p))
                            .map(|(set, t)| now <= t + c.claim_timeout as i64 && set.iter().any(|x| contains(&uni[*x as usize], a)))
                            .unwrap_or(false);
                        if !ok {
                            out.push(Viol::new(
                                "next-hop-without-announced-claim",
                                format!("step {}: lookup({}) -> {} although that peer's current announcement {:?} does not contain the address", si, a, sa, p.and_then(|p| last.get(&p))),
                                cj(),
                            ));
                            return out;
                        }
                    }
                }
            }
            Step::Learn(p, a) => {
                let addr: Address = format!("02:00:00:00:00:{:02x}", a % 4).parse().unwrap();
                table.cache(addr, peer_addr(*p));
                learned.insert(a % 4, (*p, now));
                // a peer that is not connected cannot deliver payload: model it as connected without claims
                last.entry(*p).or_insert((BTreeSet::new(), now));
            }
            Step::Tick(n) => {
                for _ in 0..*n {
                    now += 1;
                    MockTimeSource::set_time(now);
                    table.housekeep();
                }
            }
        }
        // invariant after every step: claims per peer == last announcement (while not expired)
        let (claims, cache) = table.verif_dump();
        for p in 0..4u8 {
            let have: BTreeSet<u8> = claims
                .iter()
                .filter(|(sa, _, _)| *sa == peer_addr(p))
                .filter_map(|(_, r, _)| uni.iter().position(|u| u == r).map(|i| i as u8))
                .collect();
            let (want, fresh, boundary): (BTreeSet<u8>, bool, bool) = match last.get(&p) {
                Some((set, t)) => {
                    let age = now - t;
                    (set.clone(), age < c.claim_timeout as i64, age == c.claim_timeout as i64)
                }
                None => (BTreeSet::new(), true, false),
            };
            let ok = if fresh {
                have == want
            } else if boundary {
                have == want || have.is_empty()
            } else {
                have.is_empty()
            };
            if !ok {
                let kind = if !fresh && !boundary {
                    "claims-outlive-peer-timeout"
                } else if have.is_superset(&want) {
                    "withdrawn-claim-still-attributed"
                } else {
                    "announced-claim-missing"
                };
                out.push(Viol::new(
                    kind,
                    format!(
                        "after step {} ({:?}): table attributes claims {:?} to peer {}, its most recent announcement is {:?}",
                        si,
                        step,
                        have.iter().map(|i| uni[*i as usize].to_string()).collect::<Vec<_>>(),
                        p,
                        want.iter().map(|i| uni[*i as usize].to_string()).collect::<Vec<_>>()
                    ),
                    cj(),
                ));
                return out;
            }
        }
        // cached decisions: each must be backed by a current claim of that peer, or be an address learned from a
        // peer that is still connected
        for (a, sa, _) in &cache {
            let p = (0..4u8).find(|i| peer_addr(*i) == *sa);
            let is_learned = a.len == 6 && learned.get(&a.data[5]).map(|(q, _)| Some(*q) == p && last.contains_key(q)).unwrap_or(false);
            let ok = is_learned || p.and_then(|p| last.get(&p)).map(|(set, _)| set.iter().any(|x| contains(&uni[*x as usize], a))).unwrap_or(false);
            if !ok {
                let sig = if a.len == 6 { "learned-address-points-at-removed-peer" } else { "cached-decision-outlives-claim" };
                out.push(Viol::new(
                    sig,
                    format!("after step {} ({:?}): cached decision {} -> {} is backed by no current claim of that peer", si, step, a, sa),
                    cj(),
                ));
                return out;
            }
        }
    }
    if shrunk {
        ctx.nontrivial(&format!("{:?}", c.steps));
        ctx.class("sequence:with-shrink-or-disconnect");
    } else {
        ctx.class("sequence:grow-only");
    }
    out
}

/// all ordered lists over the 4-claim universe without repetition, plus lists with one duplicate entry
pub fn all_lists() -> Vec<Vec<u8>> {
    let mut out: Vec<Vec<u8>> = vec![vec![]];
    fn rec(cur: &mut Vec<u8>, out: &mut Vec<Vec<u8>>) {
        for x in 0..4u8 {
            if !cur.contains(&x) {
                cur.push(x);
                out.push(cur.clone());
                rec(cur, out);
                cur.pop();
            }
        }
    }
    rec(&mut vec![], &mut out);
    // duplicates
    for l in [vec![0u8, 0], vec![0, 1, 0], vec![1, 0, 0], vec![2, 2, 1], vec![0, 1, 2, 0], vec![3, 3]] {
        out.push(l);
    }
    out
}

fn step_strategy() -> impl Strategy<Value = Step> {
    prop_oneof![
        6 => (0u8..3, proptest::collection::vec(0u8..4, 0..5)).prop_map(|(p, l)| Step::Announce(p, l)),
        1 => (0u8..3).prop_map(Step::Disconnect),
        3 => Just(Step::Probe),
        2 => (0u8..3, 0u8..4).prop_map(|(p, a)| Step::Learn(p, a)),
        2 => prop_oneof![Just(0u32), Just(1), Just(7), Just(8), Just(9), Just(3)].prop_map(Step::Tick),
    ]
}

pub fn run(ctx: &Ctx) {
    ctx.rule(
        "table level: sequences of announcements (peer, ordered list over a 4-claim universe incl. duplicates: 71 \
         lists), disconnects, probe lookups and time steps; after every step the claims the table attributes to \
         each peer must equal its most recent announcement (nothing after expiry / disconnect) and every cached \
         decision must be backed by a current claim of its peer. Exhaustive: one peer x all list sequences to a tier \
         depth (with and without probes in between), two peers to depth 2; proptest to length 60. Node level: real \
         nodes with a scripted trusted peer (restart with other claims, silence, close, failing second handshake). \
         Non-trivial = sequence containing a shrink, withdrawal or disconnect; distinct = step string.",
    );
    let lists = all_lists();
    let nl = lists.len() as u64;
    // (1) one peer, all sequences of `depth` announcements, probes between announcements on/off
    let depth: u32 = ctx.tier.pick(3, 4);
    let total = nl.pow(depth) * 2;
    ctx.par_range_chunked(total, 2048, |_, i| {
        let probes = i % 2 == 1;
        let mut k = i / 2;
        let mut steps = vec![];
        for _ in 0..depth {
            steps.push(Step::Announce(0, lists[(k % nl) as usize].clone()));
            if probes {
                steps.push(Step::Probe);
            }
            k /= nl;
        }
        let c = Case { claim_timeout: 8, switch_timeout: 5, steps };
        let v = run_case(ctx, &c);
        ctx.report(v);
    });
    ctx.subspace(&format!("one peer: all sequences of {} announcements over 71 ordered lists x probes on/off", depth), total, true);
    // (2) two peers interleaved, depth 2 each
    let total2 = nl * nl * nl * nl;
    let stride: u64 = ctx.tier.pick(7, 1);
    ctx.par_range_chunked(total2 / stride, 2048, |_, j| {
        let mut k = j * stride;
        let mut steps = vec![];
        for r in 0..4 {
            steps.push(Step::Announce((r % 2) as u8, lists[(k % nl) as usize].clone()));
            steps.push(Step::Probe);
            k /= nl;
        }
        let c = Case { claim_timeout: 8, switch_timeout: 5, steps };
        let v = run_case(ctx, &c);
        ctx.report(v);
    });
    ctx.subspace("two peers alternating: 2 announcements each over 71 lists, probes between", total2 / stride, stride == 1);
    // (2b) learned addresses of peers with and without claims, then removal
    for with_claims in [false, true] {
        for probe in [false, true] {
            let mut steps = vec![];
            if with_claims {
                steps.push(Step::Announce(1, vec![0]));
            }
            steps.push(Step::Learn(1, 2));
            if probe {
                steps.push(Step::Probe);
            }
            steps.push(Step::Disconnect(1));
            steps.push(Step::Probe);
            let v = run_case(ctx, &Case { claim_timeout: 8, switch_timeout: 5, steps });
            ctx.report(v);
        }
    }
    ctx.subspace("learned address of a peer with / without claims, then removal of the peer", 4, true);
    // (3) proptest longer histories with time and disconnects
    let n: u32 = ctx.tier.pick(8_000, 200_000);
    ctx.proptest("pt-announce", n, || proptest::collection::vec(step_strategy(), 0..60), |steps| {
        let c = Case { claim_timeout: 8, switch_timeout: 5, steps: steps.clone() };
        let v = run_case(ctx, &c);
        if steps.len() > 3 && steps.len() < 9 {
            ctx.sample("announce-history", || serde_json::to_value(&c).unwrap());
        }
        v
    });
    ctx.subspace("proptest histories up to length 60 (3 peers, time steps around the claim timeout, disconnects)", n as u64, false);

    crate::props::node_level::c12_node(ctx);

    // coverage-guided search over the same histories (libFuzzer target hist_c12: bytes -> operations -> this oracle);
    // the committed corpus is replayed in-process in every tier, the campaign runs in the thorough tier
    crate::targets::replay_corpus(ctx, "hist_c12");
    if std::env::var("VCHECK_FUZZ").is_ok() && !ctx.quick() {
        crate::fuzzdrv::run_campaign_par(ctx, "hist_c12", 3200000, 16, 128);
    }
}

pub fn replay(ctx: &Ctx, case: &Value) {
    if crate::fuzzdrv::replay(ctx, case) {
        return;
    }
    match case["kind"].as_str() {
        Some("announce") => {
            if let Ok(c) = serde_json::from_value::<Case>(case["case"].clone()) {
                let v = run_case(ctx, &c);
                ctx.report(v);
            }
        }
        Some(_) => crate::props::node_level::replay(ctx, case),
        None => {}
    }
}
