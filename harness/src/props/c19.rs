//! C19 - address dissection of frames and packets is exact and total.
//! Oracle: an independently written reference dissector (differential), under panic capture.

use crate::engine::{hex, unhex, Ctx, Viol};
use crate::sim::catch;
use proptest::prelude::*;
use serde_json::{json, Value};
use vpncloud::payload::{Frame, Packet, Protocol};
use vpncloud::types::Address;

#[derive(Clone, Debug, PartialEq, Eq)]
pub enum RefOut {
    Reject,
    /// list of acceptable (src, dst) answers, each as the significant bytes
    Accept(Vec<(Vec<u8>, Vec<u8>)>),
}

/// Reference Ethernet dissector, written from the property statement.
pub fn ref_frame(b: &[u8]) -> RefOut {
    if b.len() < 14 {
        return RefOut::Reject;
    }
    let dst = &b[0..6];
    let src = &b[6..12];
    let ethertype = ((b[12] as u16) << 8) | b[13] as u16;
    if ethertype != 0x8100 {
        return RefOut::Accept(vec![(src.to_vec(), dst.to_vec())]);
    }
    if b.len() < 16 {
        return RefOut::Reject;
    }
    let tci = ((b[14] as u16) << 8) | b[15] as u16;
    let vid = tci & 0x0fff;
    let mut s8 = vec![(vid >> 8) as u8, (vid & 0xff) as u8];
    s8.extend_from_slice(src);
    let mut d8 = vec![(vid >> 8) as u8, (vid & 0xff) as u8];
    d8.extend_from_slice(dst);
    if vid == 0 {
        // C19 does not fix whether VLAN 0 is folded into untagged (C13 does): both forms accepted
        RefOut::Accept(vec![(s8, d8), (src.to_vec(), dst.to_vec())])
    } else {
        RefOut::Accept(vec![(s8, d8)])
    }
}

/// Reference IP dissector.
pub fn ref_packet(b: &[u8]) -> RefOut {
    if b.is_empty() {
        return RefOut::Reject;
    }
    match b[0] >> 4 {
        4 => {
            if b.len() < 20 {
                RefOut::Reject
            } else {
                RefOut::Accept(vec![(b[12..16].to_vec(), b[16..20].to_vec())])
            }
        }
        6 => {
            if b.len() < 40 {
                RefOut::Reject
            } else {
                RefOut::Accept(vec![(b[8..24].to_vec(), b[24..40].to_vec())])
            }
        }
        _ => RefOut::Reject,
    }
}

fn addr_bytes(a: &Address) -> Option<Vec<u8>> {
    if a.len as usize > 16 {
        return None;
    }
    Some(a.data[..a.len as usize].to_vec())
}

fn case_json(proto: &str, b: &[u8]) -> Value {
    json!({"proto": proto, "bytes": hex(b)})
}

/// Runs one case against the real dissector; returns violations.
pub fn check_case(ctx: &Ctx, proto: &str, b: &[u8]) -> Vec<Viol> {
    ctx.eval();
    let expect = if proto == "frame" { ref_frame(b) } else { ref_packet(b) };
    let got = catch(|| if proto == "frame" { Frame::parse(b) } else { Packet::parse(b) });
    let mut out = vec![];
    match got {
        Err(p) => out.push(Viol::new(
            format!("{}-{}", proto, p.sig()),
            format!("{} dissector panicked on {} bytes: {} at {}", proto, b.len(), p.msg, p.loc),
            case_json(proto, b),
        )),
        Ok(res) => match (&expect, res) {
            (RefOut::Reject, Err(_)) => {
                ctx.class(&format!("{}:reject", proto));
            }
            (RefOut::Reject, Ok((s, d))) => out.push(Viol::new(
                format!("{}-accepts-truncated-or-unsupported", proto),
                format!("{} dissector accepted input the reference rejects: src={} dst={}", proto, s, d),
                case_json(proto, b),
            )),
            (RefOut::Accept(_), Err(e)) => out.push(Viol::new(
                format!("{}-rejects-valid", proto),
                format!("{} dissector rejected a complete header ({} bytes): {}", proto, b.len(), e),
                case_json(proto, b),
            )),
            (RefOut::Accept(list), Ok((s, d))) => {
                let sb = addr_bytes(&s);
                let db = addr_bytes(&d);
                let ok = match (sb, db) {
                    (Some(sb), Some(db)) => list.iter().any(|(es, ed)| es == &sb && ed == &db),
                    _ => false,
                };
                ctx.class(&format!("{}:accept", proto));
                if !ok {
                    out.push(Viol::new(
                        format!("{}-wrong-addresses", proto),
                        format!(
                            "{} dissector returned src={} dst={}, reference expects {:?}",
                            proto,
                            s,
                            d,
                            list.iter().map(|(a, b)| (hex(a), hex(b))).collect::<Vec<_>>()
                        ),
                        case_json(proto, b),
                    ));
                }
            }
        },
    }
    // non-trivial: accepted by the reference, or rejected within 2 bytes of an acceptance boundary
    let nontrivial = match expect {
        RefOut::Accept(_) => true,
        RefOut::Reject => {
            let l = b.len();
            if proto == "frame" {
                (12..16).contains(&l)
            } else {
                (18..20).contains(&l) || (38..40).contains(&l)
            }
        }
    };
    if nontrivial {
        ctx.nontrivial(&(proto, b));
    }
    out
}

fn random_bytes(rng: &mut impl RngCore, len: usize, biased: bool) -> Vec<u8> {
    let mut v = vec![0u8; len];
    rng.fill_bytes(&mut v);
    if biased {
        // make interesting header values likely
        if len > 0 {
            let pick = rng.next_u32() % 4;
            v[0] = match pick {
                0 => 0x40 | (v[0] & 0xf),
                1 => 0x60 | (v[0] & 0xf),
                _ => v[0],
            };
        }
        if len >= 14 && rng.next_u32() % 2 == 0 {
            v[12] = 0x81;
            v[13] = 0x00;
            if len >= 18 && rng.next_u32() % 3 == 0 {
                v[16] = 0x81;
                v[17] = 0x00;
            }
            if len >= 16 && rng.next_u32() % 4 == 0 {
                v[14] &= 0xf0;
                v[15] = 0;
            }
        }
    }
    v
}

pub fn run(ctx: &Ctx) {
    ctx.rule(
        "cases = (dissector, byte string); generated as: every length 0..=64 x N random contents (half \
         biased towards 0x8100 / version nibbles 4 and 6), all 65536 ethertypes, all 65536 tag-control values \
         behind 0x8100 (plus nested tags), 16 version nibbles x lengths 18..=42. Non-trivial = the reference \
         dissector extracts addresses, or the input is at most 2 bytes short of a header boundary; distinct = \
         hash of (dissector, bytes).",
    );
    ctx.assume("VLAN id 0: both the folded 6-byte and the literal 8-byte answer are accepted here (C13 decides it)");
    let per_len: u64 = ctx.tier.pick(20_000, 100_000);

    // (1) lengths 0..=64 x random contents, both dissectors
    ctx.par_range(65 * 2, |w, i| {
        let len = (i / 2) as usize;
        let proto = if i % 2 == 0 { "frame" } else { "packet" };
        let mut rng = ctx.rng(&format!("len-{}-{}", proto, len), 0);
        let _ = w;
        for k in 0..per_len {
            let b = random_bytes(&mut rng, len, k % 2 == 0);
            let v = check_case(ctx, proto, &b);
            if k < 1 && (len == 16 || len == 40) {
                ctx.sample("random-length", || case_json(proto, &b));
            }
            ctx.report(v);
        }
    });
    ctx.subspace("lengths 0..=64 x random contents x 2 dissectors", 65 * 2 * per_len, false);

    // (2) all 65536 ethertypes, three lengths each (14, 15, 18)
    ctx.par_range_chunked(65536, 1024, |_, et| {
        let mut rng = ctx.rng("ethertype", et as usize);
        for len in [14usize, 15, 16, 18, 24] {
            let mut b = random_bytes(&mut rng, len, false);
            b[12] = (et >> 8) as u8;
            b[13] = (et & 0xff) as u8;
            let v = check_case(ctx, "frame", &b);
            if et == 0x8100 && len == 18 {
                ctx.sample("ethertype", || case_json("frame", &b));
            }
            ctx.report(v);
        }
    });
    ctx.subspace("all 65536 ethertype values x lengths {14,15,16,18,24}", 65536 * 5, true);

    // (3) all 65536 tag-control values behind 0x8100, plain and nested (second tag)
    ctx.par_range_chunked(65536, 1024, |_, tci| {
        let mut rng = ctx.rng("tci", tci as usize);
        for variant in 0..3 {
            let len = [16usize, 22, 64][variant];
            let mut b = random_bytes(&mut rng, len, false);
            b[12] = 0x81;
            b[13] = 0x00;
            b[14] = (tci >> 8) as u8;
            b[15] = (tci & 0xff) as u8;
            if variant == 1 {
                // nested tag: a second 802.1Q header follows, must be ignored
                b[16] = 0x81;
                b[17] = 0x00;
            }
            let v = check_case(ctx, "frame", &b);
            if (tci == 0x0067 || tci == 0xe000) && variant == 1 {
                ctx.sample("tag-control", || case_json("frame", &b));
            }
            ctx.report(v);
        }
    });
    ctx.subspace("all 65536 tag-control values x {plain, nested tag, long frame}", 65536 * 3, true);

    // (4) 16 version nibbles x lengths 18..=42 x random
    let per: u64 = ctx.tier.pick(400, 4000);
    ctx.par_range(16 * 25, |_, i| {
        let nib = (i / 25) as u8;
        let len = 18 + (i % 25) as usize;
        let mut rng = ctx.rng("nibble", i as usize);
        for k in 0..per {
            let mut b = random_bytes(&mut rng, len, false);
            b[0] = (nib << 4) | (b[0] & 0xf);
            let v = check_case(ctx, "packet", &b);
            if k == 0 && (nib == 4 || nib == 6) && (len == 20 || len == 40) {
                ctx.sample("version-nibble", || case_json("packet", &b));
            }
            ctx.report(v);
        }
    });
    ctx.subspace("16 version nibbles x lengths 18..=42 x random contents", 16 * 25 * per, false);

    // (4b) IP packets whose addresses have a special form (a dissector must not "interpret" them): IPv4-mapped and
    // IPv4-compatible IPv6, loopback, unspecified, multicast, link-local, documentation, all-ones; IPv4 0.0.0.0,
    // broadcast, loopback, multicast - every ordered pair as (source, destination), full and truncated lengths
    {
        let v6: Vec<[u8; 16]> = vec![
            [0, 0, 0, 0, 0, 0, 0, 0, 0, 0, 0xff, 0xff, 10, 1, 2, 3],
            [0, 0, 0, 0, 0, 0, 0, 0, 0, 0, 0xff, 0xff, 255, 255, 255, 255],
            [0, 0, 0, 0, 0, 0, 0, 0, 0, 0, 0xff, 0xff, 0, 0, 0, 0],
            [0, 0, 0, 0, 0, 0, 0, 0, 0, 0, 0, 0, 192, 168, 1, 1],
            [0; 16],
            [0, 0, 0, 0, 0, 0, 0, 0, 0, 0, 0, 0, 0, 0, 0, 1],
            [0xff, 0x02, 0, 0, 0, 0, 0, 0, 0, 0, 0, 0, 0, 0, 0, 1],
            [0xfe, 0x80, 0, 0, 0, 0, 0, 0, 2, 0, 0, 0xff, 0xfe, 0, 0, 1],
            [0x20, 0x01, 0x0d, 0xb8, 0, 0, 0, 0, 0, 0, 0, 0, 0, 0, 0, 7],
            [0x00, 0x64, 0xff, 0x9b, 0, 0, 0, 0, 0, 0, 0, 0, 10, 0, 0, 1],
            [0x20, 0x02, 10, 1, 2, 3, 0, 0, 0, 0, 0, 0, 0, 0, 0, 1],
            [0xff; 16],
        ];
        let v4: Vec<[u8; 4]> = vec![[0, 0, 0, 0], [255, 255, 255, 255], [127, 0, 0, 1], [224, 0, 0, 1], [10, 1, 2, 3], [169, 254, 0, 1]];
        let mut n = 0u64;
        for s in &v6 {
            for d in &v6 {
                for len in [39usize, 40, 41, 60] {
                    let mut b = vec![0x5au8; len.max(40)];
                    b[0] = 0x60;
                    b[8..24].copy_from_slice(s);
                    b[24..40].copy_from_slice(d);
                    b.truncate(len);
                    let v = check_case(ctx, "packet", &b);
                    ctx.report(v);
                    n += 1;
                }
            }
        }
        for s in &v4 {
            for d in &v4 {
                for len in [19usize, 20, 21, 40] {
                    let mut b = vec![0xa5u8; len.max(20)];
                    b[0] = 0x45;
                    b[12..16].copy_from_slice(s);
                    b[16..20].copy_from_slice(d);
                    b.truncate(len);
                    let v = check_case(ctx, "packet", &b);
                    ctx.report(v);
                    n += 1;
                }
            }
        }
        ctx.flush_local();
        ctx.subspace("IP packets with special-form addresses (IPv4-mapped / -compatible / NAT64 / 6to4 IPv6, loopback, unspecified, multicast, link-local, all-ones; special IPv4) as every (source, destination) pair x 4 lengths", n, true);
    }

    // (5) proptest: arbitrary byte strings up to 128 bytes with shrinking
    let cases: u32 = ctx.tier.pick(300_000, 3_000_000);
    ctx.proptest(
        "pt-bytes",
        cases,
        || (any::<bool>(), proptest::collection::vec(any::<u8>(), 0..128)),
        |(is_frame, bytes)| check_case(ctx, if *is_frame { "frame" } else { "packet" }, bytes),
    );
    ctx.subspace("proptest byte strings of length 0..128 (shrinking)", cases as u64, false);
    if std::env::var("VCHECK_FUZZ").is_ok() && !ctx.quick() {
        crate::fuzzdrv::run_campaign_par(ctx, "dissect", 12_000_000, 8, 4096);
    }
}

pub fn replay(ctx: &Ctx, case: &Value) {
    if crate::fuzzdrv::replay(ctx, case) {
        return;
    }
    let proto = case["proto"].as_str().unwrap_or("frame").to_string();
    let bytes = unhex(case["bytes"].as_str().unwrap_or(""));
    let v = check_case(ctx, &proto, &bytes);
    ctx.report(v);
}
