//! C09 - established connections survive forged and replayed traffic.
//! A mesh of real nodes is established and operated for 130 s with full wire capture; one captured
//! datagram is then re-injected (verbatim or edited, any claimed source, any target, at a later time)
//! and a 400 s probe phase demands connectivity, routes and exactly-once byte-identical delivery.

use crate::engine::{Ctx, Viol};
use crate::sim::{base_config, ipv4_packet, NetSim};
use proptest::prelude::*;
use serde::{Deserialize, Serialize};
use serde_json::{json, Value};
use std::net::SocketAddr;
use vpncloud::payload::Packet;
use vpncloud::types::Mode;

#[derive(Clone, Copy, Debug, Serialize, Deserialize, PartialEq, Eq, Hash)]
pub enum Source {
    Original,
    /// address of a node that is a healthy peer of the target but did not send the datagram
    AnotherPeer,
    Unknown,
}

#[derive(Clone, Copy, Debug, Serialize, Deserialize, PartialEq, Eq, Hash)]
pub enum Edit {
    Verbatim,
    /// flip bit b of byte k (k taken modulo the length)
    Flip(u16, u8),
    Truncate(u16),
    /// random bytes of the same length, first byte kept
    Random(u16),
    /// nothing of the captured datagram but its addresses: a message fabricated without any secret, sealed under a
    /// guessable key (`guess`: see sim::forge_sealed) for key slot `key_id` and nonce half `half`;
    /// msg 0 = close, 1 = payload for the target's own claim, 2 = node information withdrawing all claims, 3 = keepalive
    Forged { guess: u8, key_id: u8, half: bool, msg: u8 },
}

#[derive(Clone, Debug, Serialize, Deserialize)]
pub struct Case {
    pub nodes: u8,
    pub cipher: u8,
    /// index into the wire capture of establishment + operation
    pub datagram: u16,
    pub offset: u32,
    pub source: Source,
    /// inject at the original destination (false) or at another node (true)
    pub other_target: bool,
    pub edit: Edit,
    pub probe_seconds: u32,
    /// inject right after establishment (offset counts from there, the 130 s of operation are skipped): the
    /// initiators' handshake objects still linger
    #[serde(default)]
    pub early: bool,
}

pub const OFFSETS: [u32; 12] = [0, 1, 2, 5, 30, 59, 61, 90, 119, 121, 300, 600];

fn claim_of(i: usize) -> String {
    format!("10.{}.0.0/16", i + 1)
}

fn pkt(from: usize, to: usize, seq: u32) -> Vec<u8> {
    let body = format!("probe {}->{} #{} {}", from, to, seq, "x".repeat((seq % 37) as usize));
    ipv4_packet([10, from as u8 + 1, 0, 1], [10, to as u8 + 1, 0, 1], body.as_bytes())
}

pub fn build_mesh(nodes: usize, cipher: u8) -> NetSim<Packet> {
    build_mesh_opt(nodes, cipher, true)
}

pub fn build_mesh_opt(nodes: usize, cipher: u8, operate: bool) -> NetSim<Packet> {
    let mut sim: NetSim<Packet> = NetSim::new();
    for i in 0..nodes {
        let mut cfg = base_config();
        cfg.mode = Mode::Router;
        cfg.auto_claim = false;
        cfg.claims = vec![claim_of(i)];
        cfg.crypto.algorithms = vec![["aes128", "aes256", "chacha20"][cipher as usize % 3].to_string()];
        sim.add_node(&cfg, false);
    }
    sim.record = true;
    // every pair is dialled once, by its lower-numbered node, before any peer exchange: no dual open, so the
    // capture is the same sequence of datagram kinds in every run (dual opens are C05's subject)
    for i in 0..nodes {
        for j in (i + 1)..nodes {
            let a = sim.addr(j);
            sim.connect(i, a);
        }
    }
    sim.settle();
    if !operate {
        return sim;
    }
    // operation: 130 s with one packet per 10 s in every direction (so that data datagrams exist in the capture)
    for t in 0..130u32 {
        sim.tick();
        if t % 10 == 5 {
            for a in 0..nodes {
                for b in 0..nodes {
                    if a != b && sim.is_connected(a, b) {
                        sim.put_payload(a, pkt(a, b, 100_000 + t));
                    }
                }
            }
            sim.settle();
            for n in 0..nodes {
                sim.take_iface(n);
            }
        }
    }
    sim
}

pub struct Outcome {
    pub viols: Vec<Viol>,
    pub log_len: usize,
    pub kind: &'static str,
    pub accepted_somewhere: bool,
}

pub fn run_case(ctx: &Ctx, c: &Case) -> Outcome {
    ctx.eval();
    let cj = || json!({"kind": "replay", "case": c});
    let nodes = c.nodes.clamp(2, 3) as usize;
    let mut sim = build_mesh_opt(nodes, c.cipher, !c.early);
    let mut viols = vec![];
    let log_len = sim.wire_log.len();
    if !sim.all_connected() || !sim.panics.is_empty() {
        viols.push(Viol::new("mesh-setup-failed", format!("mesh of {} nodes not fully connected after 130 s (panics {:?})", nodes, sim.panics.first()), cj()));
        return Outcome { viols, log_len, kind: "-", accepted_somewhere: false };
    }
    sim.record = false;
    let d = sim.wire_log[c.datagram as usize % log_len].clone();
    let kind: &'static str = if d.data.first() == Some(&0xff) {
        // stage byte sits at offset 1 + 8 + 3
        match d.data.get(12) {
            Some(1) => "ping",
            Some(2) => "pong",
            Some(3) => "peng",
            _ => "handshake",
        }
    } else {
        "sealed"
    };
    let orig_dst = sim.index[&d.dst];
    let orig_src = sim.index[&d.src];
    let target = if c.other_target { (0..nodes).find(|n| *n != orig_dst).unwrap() } else { orig_dst };
    let stranger: SocketAddr = "[fd00::bad]:6666".parse().unwrap();
    let claimed: SocketAddr = match c.source {
        Source::Original => d.src,
        Source::Unknown => stranger,
        Source::AnotherPeer => match (0..nodes).find(|n| *n != orig_src && *n != target) {
            Some(n) => sim.addr(n),
            None => return Outcome { viols, log_len, kind, accepted_somewhere: false }, // needs 3 nodes
        },
    };
    if claimed == sim.addr(target) {
        return Outcome { viols, log_len, kind, accepted_somewhere: false };
    }
    let mut bytes = d.data.clone();
    match c.edit {
        Edit::Verbatim => {}
        Edit::Flip(k, b) => {
            let n = bytes.len();
            bytes[k as usize % n] ^= 1 << (b % 8);
        }
        Edit::Truncate(n) => {
            let l = bytes.len();
            bytes.truncate(n as usize % l);
        }
        Edit::Forged { guess, key_id, half, msg } => {
            let mut ctr = [0u8; 8];
            if d.data.len() >= 8 && d.data[0] != 0xff {
                ctr[1..].copy_from_slice(&d.data[1..8]);
            }
            let counter = u64::from_be_bytes(ctr).wrapping_add(1 << 30);
            let plain: Vec<u8> = match msg % 4 {
                0 => vec![0xff],
                1 => {
                    let mut v = vec![0u8];
                    v.extend_from_slice(&pkt(orig_src, target, 424_242));
                    v
                }
                2 => {
                    let mut buf = crate::sim::new_buf();
                    vpncloud::messages::NodeInfo { node_id: [9; 16], peers: Default::default(), claims: Default::default(), peer_timeout: Some(1), addrs: Default::default() }.encode(&mut buf);
                    let mut v = vec![1u8];
                    v.extend_from_slice(buf.message());
                    v
                }
                _ => vec![2u8],
            };
            bytes = crate::sim::forge_sealed(c.cipher, guess, key_id, if half { 0x80 } else { 0 }, counter, &plain);
        }
        Edit::Random(seed) => {
            let mut x = seed as u64 * 2654435761 + 1;
            for b in bytes.iter_mut().skip(1) {
                x ^= x << 13;
                x ^= x >> 7;
                x ^= x << 17;
                *b = (x >> 16) as u8;
            }
        }
    }
    sim.run(c.offset as i64);
    for n in 0..nodes {
        sim.take_iface(n);
    }
    let peers_before = sim.nodes[target].node.verif_peers().len();
    let pending_before = sim.nodes[target].node.verif_pending().len();
    let inflight_before = sim.inflight.len() + sim.delayed.len();
    sim.deliver_to(target, claimed, bytes);
    let emitted = sim.inflight.len() + sim.delayed.len() > inflight_before;
    let accepted_somewhere = emitted || sim.nodes[target].node.verif_pending().len() != pending_before || sim.nodes[target].node.verif_peers().len() != peers_before;
    sim.settle();
    // tolerated: one extra copy of an old frame through a verbatim data replay inside the replay window
    let mut old_copies = 0;
    for n in 0..nodes {
        old_copies += sim.take_iface(n).len();
    }
    if old_copies > 1 {
        viols.push(Viol::new("replayed-payload-delivered-more-than-once", format!("{} interface writes caused by one injected datagram", old_copies), cj()));
    }
    if old_copies == 1 && (c.edit != Edit::Verbatim || c.offset > 2) {
        viols.push(Viol::new(
            "stale-or-altered-payload-delivered",
            format!("an injected {} datagram (edit {:?}, {} s later) was written to an interface", kind, c.edit, c.offset),
            cj(),
        ));
    }
    // probe phase
    sim.record = true;
    sim.wire_log.clear();
    let mut lost = 0u32;
    let mut first_loss: Option<String> = None;
    let mut disconnected_at: Option<u32> = None;
    let mut routes_missing_at: Option<u32> = None;
    for s in 0..c.probe_seconds {
        sim.tick();
        if !sim.panics.is_empty() {
            break;
        }
        if !sim.all_connected() && disconnected_at.is_none() {
            disconnected_at = Some(s);
        }
        // routes: every node's table holds every other node's claim
        for a in 0..nodes {
            let (claims, _) = sim.nodes[a].node.verif_table().verif_dump();
            for b in 0..nodes {
                if a != b {
                    let want: vpncloud::types::Range = claim_of(b).parse().unwrap();
                    let addr_b = sim.addr(b);
                    if !claims.iter().any(|(p, r, _)| *p == addr_b && *r == want) && routes_missing_at.is_none() {
                        routes_missing_at = Some(s);
                    }
                }
            }
        }
        for a in 0..nodes {
            for b in 0..nodes {
                if a == b {
                    continue;
                }
                let p = pkt(a, b, s);
                sim.put_payload(a, p.clone());
                sim.settle();
                for n in 0..nodes {
                    let got = sim.take_iface(n);
                    let ok = if n == b { got == vec![p.clone()] } else { got.is_empty() };
                    if !ok {
                        lost += 1;
                        if first_loss.is_none() {
                            first_loss = Some(format!("second {}: packet {}->{}: node {} wrote {} packets to its interface", s, a, b, n, got.len()));
                        }
                    }
                }
            }
        }
    }
    let what = format!(
        "{} datagram #{} ({}->{}) injected at node {} claiming source {} ({:?}), edit {:?}, {} s after operation",
        kind, c.datagram as usize % log_len, orig_src, orig_dst, target, claimed, c.source, c.edit, c.offset
    );
    // signature: what an outsider did + which effect it had
    let sigbase = format!("kind={}/edit={}/src={:?}", kind, match c.edit { Edit::Verbatim => "verbatim", Edit::Forged { .. } => "fabricated", _ => "edited" }, c.source);
    // a mesh node that dials (sends a ping to) another mesh node during the probe phase had lost that peer
    if let Some(d) = sim.wire_log.iter().find(|d| d.data.first() == Some(&0xff) && d.data.get(12) == Some(&1) && sim.index.contains_key(&d.src) && sim.index.contains_key(&d.dst)) {
        viols.push(Viol::new(
            format!("{}/effect=peer-dropped-and-redialled", sigbase),
            format!("{}: at t={} node {} dials node {} again - it had dropped a healthy peer", what, d.sent_at, sim.index[&d.src], sim.index[&d.dst]),
            cj(),
        ));
    }
    if let Some((n, p, ctxt)) = sim.panics.first() {
        viols.push(Viol::new(format!("{}/effect=panic", sigbase), format!("{}: node {} panicked: {} at {} ({})", what, n, p.msg, p.loc, ctxt), cj()));
    }
    if lost > 0 {
        viols.push(Viol::new(
            format!("{}/effect=payload-loss", sigbase),
            format!("{}: {} probe deliveries wrong during the probe phase; first: {}", what, lost, first_loss.unwrap_or_default()),
            cj(),
        ));
    } else if let Some(s) = disconnected_at {
        viols.push(Viol::new(format!("{}/effect=connection-lost", sigbase), format!("{}: a pair was disconnected at probe second {}", what, s), cj()));
    } else if let Some(s) = routes_missing_at {
        viols.push(Viol::new(format!("{}/effect=routes-lost", sigbase), format!("{}: a claim of a connected peer was missing at probe second {}", what, s), cj()));
    }
    Outcome { viols, log_len, kind, accepted_somewhere }
}

// ---------------------------------------------------------------------------------------------
// online duplicates: an outsider on the path copies every control datagram (handshake, rotation,
// node information, keepalive) and delivers the copy again a little later - right behind the
// original, after the receiver's next housekeeping, or one / two seconds later, i.e. still inside
// the replay window of C03 - while the nodes' housekeeping ticks are not aligned.
// ---------------------------------------------------------------------------------------------

#[derive(Clone, Debug, Serialize, Deserialize)]
pub struct OnlineCase {
    pub nodes: u8,
    pub cipher: u8,
    /// when the copy is delivered: 0 right behind the original, 1 after the receiver's next housekeeping,
    /// 2 at the start of the next second, 3 in the next second after all housekeeping, 4 at the start of the second after
    pub when: u8,
    /// housekeeping order within a second reversed (highest node first)
    pub reversed: bool,
    /// true: what a node sends during housekeeping is delivered before the next node's housekeeping runs
    pub unaligned: bool,
    pub seconds: u32,
    /// 0 every control datagram, 1 sealed ones only, 2 handshake messages only
    pub which: u8,
    /// every k-th eligible datagram is copied (1 = all)
    pub every: u8,
}

pub fn run_online(ctx: &Ctx, c: &OnlineCase) -> Vec<Viol> {
    ctx.eval();
    let cj = || json!({"kind": "online-dup", "case": c});
    let nodes = c.nodes.clamp(2, 3) as usize;
    let mut viols = vec![];
    let mut sim: NetSim<Packet> = NetSim::new();
    for i in 0..nodes {
        let mut cfg = base_config();
        cfg.mode = Mode::Router;
        cfg.auto_claim = false;
        cfg.claims = vec![claim_of(i)];
        cfg.crypto.algorithms = vec![["aes128", "aes256", "chacha20"][c.cipher as usize % 3].to_string()];
        sim.add_node(&cfg, false);
    }
    // copies waiting: (trigger, target node, claimed source, bytes); trigger 1 = after housekeeping of target,
    // 2 / 3 / 4 as in `when`, with the second in which they become due
    let mut waiting: Vec<(u8, i64, usize, SocketAddr, Vec<u8>)> = vec![];
    let mut count = 0u64;
    let mut copies = 0u64;
    // delivers everything in flight; eligible datagrams are copied according to the case
    fn pump(sim: &mut NetSim<Packet>, c: &OnlineCase, waiting: &mut Vec<(u8, i64, usize, SocketAddr, Vec<u8>)>, count: &mut u64, copies: &mut u64) {
        let mut guard = 0;
        while let Some(d) = sim.inflight.pop_front() {
            guard += 1;
            if guard > 5000 {
                sim.storm = true;
                sim.inflight.clear();
                return;
            }
            let hs = d.data.first() == Some(&0xff);
            let eligible = match c.which % 3 {
                0 => true,
                1 => !hs,
                _ => hs,
            };
            let target = sim.index.get(&d.dst).copied();
            sim.deliver(d.clone());
            if let (true, Some(t)) = (eligible, target) {
                *count += 1;
                if *count % c.every.max(1) as u64 == 0 {
                    *copies += 1;
                    match c.when % 5 {
                        0 => {
                            sim.deliver_to(t, d.src, d.data.clone());
                        }
                        1 => waiting.push((1, sim.now, t, d.src, d.data.clone())),
                        2 => waiting.push((2, sim.now + 1, t, d.src, d.data.clone())),
                        3 => waiting.push((3, sim.now + 1, t, d.src, d.data.clone())),
                        _ => waiting.push((4, sim.now + 2, t, d.src, d.data.clone())),
                    }
                }
            }
        }
    }
    fn release(sim: &mut NetSim<Packet>, waiting: &mut Vec<(u8, i64, usize, SocketAddr, Vec<u8>)>, pred: &dyn Fn(&(u8, i64, usize, SocketAddr, Vec<u8>)) -> bool) {
        let mut keep = vec![];
        let all: Vec<_> = std::mem::take(waiting);
        for w in all {
            if pred(&w) {
                sim.deliver_to(w.2, w.3, w.4.clone());
            } else {
                keep.push(w);
            }
        }
        *waiting = keep;
    }
    for i in 0..nodes {
        for j in (i + 1)..nodes {
            let a = sim.addr(j);
            sim.connect(i, a);
        }
    }
    pump(&mut sim, c, &mut waiting, &mut count, &mut copies);
    let order: Vec<usize> = if c.reversed { (0..nodes).rev().collect() } else { (0..nodes).collect() };
    let mut lost = 0u32;
    let mut first_loss: Option<String> = None;
    let mut disconnected_at: Option<u32> = None;
    for s in 0..c.seconds {
        sim.now += 1;
        vpncloud::util::MockTimeSource::set_time(sim.now);
        let now = sim.now;
        release(&mut sim, &mut waiting, &|w| (w.0 == 2 || w.0 == 4) && w.1 <= now);
        pump(&mut sim, c, &mut waiting, &mut count, &mut copies);
        for &i in &order {
            sim.housekeep(i);
            if c.unaligned {
                pump(&mut sim, c, &mut waiting, &mut count, &mut copies);
            }
            release(&mut sim, &mut waiting, &|w| w.0 == 1 && w.2 == i);
            if c.unaligned {
                pump(&mut sim, c, &mut waiting, &mut count, &mut copies);
            }
        }
        pump(&mut sim, c, &mut waiting, &mut count, &mut copies);
        release(&mut sim, &mut waiting, &|w| w.0 == 3 && w.1 <= now);
        pump(&mut sim, c, &mut waiting, &mut count, &mut copies);
        if !sim.panics.is_empty() || sim.storm {
            break;
        }
        if s < 5 {
            continue;
        }
        if !sim.all_connected() && disconnected_at.is_none() {
            disconnected_at = Some(s);
        }
        for n in 0..nodes {
            sim.take_iface(n);
        }
        for a in 0..nodes {
            for b in 0..nodes {
                if a == b {
                    continue;
                }
                let p = pkt(a, b, s);
                sim.put_payload(a, p.clone());
                sim.settle(); // payload datagrams are not copied: their in-window duplicate is C03's subject
                for n in 0..nodes {
                    let got = sim.take_iface(n);
                    let ok = if n == b { got == vec![p.clone()] } else { got.is_empty() };
                    if !ok {
                        lost += 1;
                        if first_loss.is_none() {
                            first_loss = Some(format!("second {}: packet {}->{}: node {} wrote {} packets to its interface", s, a, b, n, got.len()));
                        }
                    }
                }
            }
        }
    }
    let what = format!("copies of control datagrams delivered again (when={}, unaligned={}, reversed={}, which={}, every={}; {} copies)", c.when % 5, c.unaligned, c.reversed, c.which % 3, c.every, copies);
    if let Some((n, p, ctxt)) = sim.panics.first() {
        viols.push(Viol::new("online-duplicate/effect=panic", format!("{}: node {} panicked: {} at {} ({})", what, n, p.msg, p.loc, ctxt), cj()));
    } else if sim.storm {
        ctx.class("online:inconclusive-datagram-storm");
    } else if lost > 0 {
        viols.push(Viol::new("online-duplicate/effect=payload-loss", format!("{}: {} probe deliveries wrong; first: {}", what, lost, first_loss.unwrap_or_default()), cj()));
    } else if let Some(s) = disconnected_at {
        viols.push(Viol::new("online-duplicate/effect=connection-lost", format!("{}: a pair was disconnected at second {}", what, s), cj()));
    }
    if copies > 0 {
        ctx.nontrivial(&format!("{:?}", c));
    }
    ctx.class(&format!("online:when={}", c.when % 5));
    viols
}

pub fn run(ctx: &Ctx) {
    // online duplicates (2- and 3-node meshes, every combination of the case parameters)
    {
        let mut cases = vec![];
        let secs: u32 = ctx.tier.pick(500, 1500);
        for nodes in [2u8, 3] {
            for when in 0..5u8 {
                for reversed in [false, true] {
                    for unaligned in [false, true] {
                        for which in 0..3u8 {
                            for every in [1u8, 2, 3] {
                                if nodes == 3 && (every != 1 || ctx.quick() && which == 2) {
                                    continue;
                                }
                                cases.push(OnlineCase { nodes, cipher: (when + which + every) % 3, when, reversed, unaligned, seconds: secs, which, every });
                            }
                        }
                    }
                }
            }
        }
        let total = cases.len() as u64;
        ctx.par_items(&cases, |_, c| {
            let v = run_online(ctx, c);
            ctx.report(v);
        });
        ctx.sample("online-duplicate", || serde_json::to_value(&cases[7]).unwrap());
        ctx.subspace(
            &format!("online duplicates: copy of every (k-th) control datagram delivered again at 5 points inside the replay window x tick order x aligned/unaligned housekeeping x datagram class, 2-3 nodes, {} s each", secs),
            total,
            true,
        );
    }
    ctx.rule(
        "case = (mesh size 2-3 router-mode real nodes with claims, cipher, index of a datagram captured during \
         establishment + 130 s of operation with traffic, time offset from {0,1,2,5,30,59,61,90,119,121,300,600} s, \
         claimed source {original, another peer, unknown}, target {original destination, other node}, edit \
         {verbatim, bit flips in header/body/tag, truncation, random body}); after the injection a probe phase sends \
         one packet per second in each direction of every pair. Oracle: every tick all pairs connected and all \
         claims present, every probe packet written exactly once and byte-identical at its destination only; the \
         only tolerated extra write is one copy of an old packet from a verbatim replay within 2 s. 2-node product \
         enumerated (probe phase per tier), 3-node meshes sampled. Non-trivial = the injected datagram was verbatim \
         or came from a peer's address; distinct = whole case.",
    );
    ctx.assume("in-window duplicates are bounded by C03 and tolerated here (at most one, verbatim, within 2 s)");
    // capture size (deterministic up to crypto material)
    let probe = build_mesh(2, 0);
    let n2 = probe.wire_log.len();
    let kinds: Vec<String> = probe.wire_log.iter().map(|d| if d.data.first() == Some(&0xff) { format!("hs{}", d.data[12]) } else { format!("sealed({})", d.data.len()) }).collect();
    ctx.extra("capture_2_nodes", json!(kinds));
    drop(probe);
    let probe_seconds: u32 = ctx.tier.pick(200, 400);
    let edits: Vec<Edit> = ctx.tier.pick(
        vec![Edit::Verbatim, Edit::Flip(0, 2), Edit::Flip(40, 0), Edit::Truncate(23)],
        vec![Edit::Verbatim, Edit::Flip(0, 0), Edit::Flip(0, 2), Edit::Flip(3, 7), Edit::Flip(12, 1), Edit::Flip(40, 0), Edit::Flip(65535, 7), Edit::Truncate(23), Edit::Truncate(100), Edit::Random(7)],
    );
    let mut cases = vec![];
    for i in 0..n2 {
        for off in OFFSETS {
            for source in [Source::Original, Source::Unknown] {
                for other_target in [false, true] {
                    for e in &edits {
                        // quick tier: edited datagrams only at 3 offsets (they are rejected the same way at any time)
                        if ctx.quick() && *e != Edit::Verbatim && ![0, 61, 300].contains(&off) {
                            continue;
                        }
                        if other_target && source == Source::Original && *e != Edit::Verbatim {
                            continue;
                        }
                        cases.push(Case { nodes: 2, cipher: (i % 3) as u8, datagram: i as u16, offset: off, source, other_target, edit: *e, probe_seconds, early: false });
                    }
                }
            }
        }
    }
    // early injections: right after establishment (4 captured datagrams), while handshake objects linger
    for i in 0..4usize {
        for off in [0u32, 1, 5, 30, 59, 61] {
            for source in [Source::Original, Source::Unknown] {
                for other_target in [false, true] {
                    for e in &edits {
                        cases.push(Case { nodes: 2, cipher: (i % 3) as u8, datagram: i as u16, offset: off, source, other_target, edit: *e, probe_seconds, early: true });
                    }
                }
            }
        }
    }
    // fabricated messages under guessable keys for every key slot and nonce half, from the peer's address, at times
    // when 0, 1, 2 and all of the key slots have been filled by the rotation (datagram 4/5 = first sealed datagrams of
    // the capture in either direction: both targets)
    for guess in 0..5u8 {
        for key_id in 0..4u8 {
            for half in [false, true] {
                for msg in 0..4u8 {
                    for (k, off) in [0u32, 100, 130, 250, 500, 1000].into_iter().enumerate() {
                        if ctx.quick() && (guess > 1 && (k + msg as usize + key_id as usize) % 3 != 0) {
                            continue;
                        }
                        let datagram = 4 + ((k as u16 + msg as u16 + guess as u16) % 2);
                        cases.push(Case { nodes: 2, cipher: (guess + key_id + msg) % 3, datagram, offset: off, source: Source::Original, other_target: false, edit: Edit::Forged { guess, key_id, half, msg }, probe_seconds: ctx.tier.pick(60, 200), early: true });
                    }
                }
            }
        }
    }
    let total = cases.len() as u64;
    ctx.par_items(&cases, |_, c| {
        let o = run_case(ctx, c);
        if c.edit == Edit::Verbatim || c.source != Source::Unknown {
            ctx.nontrivial(&format!("{:?}", c));
        }
        ctx.class(&format!("inject:{}:{}", o.kind, match c.edit { Edit::Verbatim => "verbatim", Edit::Forged { .. } => "fabricated-under-guessable-key", _ => "edited" }));
        if o.accepted_somewhere {
            ctx.class("inject:changed-target-state-or-was-answered");
        }
        if c.datagram == 0 && c.offset == 61 && c.edit == Edit::Verbatim {
            ctx.sample("replay", || serde_json::to_value(c).unwrap());
        }
        ctx.report(o.viols);
    });
    ctx.subspace(&format!("2-node mesh: {} captured datagrams x 12 offsets x sources x targets x edits, plus early injections (linger minute), plus messages fabricated under 5 guessable keys x 4 key slots x 2 nonce halves x (close, payload, node info, keepalive) x 6 times", n2), total, true);

    // 3-node meshes: sampled, includes "another peer" as claimed source
    let n3: u32 = ctx.tier.pick(1_500, 12_000);
    ctx.proptest(
        "pt-3node",
        n3,
        || {
            (
                // the first 12 captured datagrams are the handshakes and first rotation messages: half of the cases
                prop_oneof![0u16..12, any::<u16>()],
                0usize..12,
                prop_oneof![Just(Source::Original), Just(Source::AnotherPeer), Just(Source::Unknown)],
                any::<bool>(),
                prop_oneof![4 => Just(Edit::Verbatim), 1 => (any::<u16>(), 0u8..8).prop_map(|(k, b)| Edit::Flip(k, b)), 1 => any::<u16>().prop_map(Edit::Truncate), 1 => (0u8..5, 0u8..4, any::<bool>(), 0u8..4).prop_map(|(guess, key_id, half, msg)| Edit::Forged { guess, key_id, half, msg })],
                0u8..3,
                any::<bool>(),
            )
        },
        |(d, off, source, other_target, edit, cipher, early)| {
            // early cases: the capture holds the 3 x 4 establishment datagrams only; offsets inside the linger minute
            let c = Case { nodes: 3, cipher: *cipher, datagram: *d, offset: if *early { [0, 1, 5, 30, 59, 61][*off % 6] } else { OFFSETS[*off] }, source: *source, other_target: *other_target, edit: *edit, probe_seconds: ctx.tier.pick(130, 400), early: *early };
            let o = run_case(ctx, &c);
            if c.edit == Edit::Verbatim || c.source != Source::Unknown {
                ctx.nontrivial(&format!("{:?}", c));
            }
            ctx.class(&format!("inject3:{}:{:?}", o.kind, c.source));
            o.viols
        },
    );
    ctx.subspace("3-node meshes: sampled (datagram, offset, source incl. another peer, target, edit)", n3 as u64, false);
}

pub fn replay(ctx: &Ctx, case: &Value) {
    if case["kind"].as_str() == Some("online-dup") {
        if let Ok(c) = serde_json::from_value::<OnlineCase>(case["case"].clone()) {
            for _ in 0..3 {
                let v = run_online(ctx, &c);
                ctx.report(v);
            }
        }
        return;
    }
    if let Ok(c) = serde_json::from_value::<Case>(case["case"].clone()) {
        for _ in 0..3 {
            let o = run_case(ctx, &c);
            ctx.report(o.viols);
        }
    }
}
