//! C01 - only holders of a mutually trusted key can become peers.
//! (a) all trust relations among 4 key pairs: peers iff mutual trust; (b) mutations / forgeries of
//! genuine ping, pong, peng presented to a receiver in every handshake stage: rejected, non-fatal,
//! no state change, no reply, and the genuine exchange still completes with agreement.
//! Node level in `node_level::c01_node`.

use crate::engine::{hex, Ctx, Viol};
use crate::props::c16::{key_selector, ref_encode_init, InitDesc};
use crate::sim::{catch, crypto_from, node_id, node_info, simple_handshake, Event, HsOutcome, PairSim};
use proptest::prelude::*;
use ring::signature::{Ed25519KeyPair, KeyPair};
use serde::{Deserialize, Serialize};
use serde_json::{json, Value};
use vpncloud::crypto::{Config as CryptoConfig, Crypto};

// ---------------- (a) trust graphs ----------------

pub struct KeyUniverse {
    /// (private text or password, public text)
    pub keys: Vec<(CryptoConfig, String)>,
}

pub fn key_universe() -> KeyUniverse {
    let mut keys = vec![];
    for pw in ["alpha-password", "beta \u{fc}ber"] {
        let (_priv, publ) = Crypto::generate_keypair(Some(pw));
        keys.push((CryptoConfig { password: Some(pw.to_string()), ..Default::default() }, publ));
    }
    for seed in [11u8, 12] {
        let mut s = [0u8; 32];
        for (i, b) in s.iter_mut().enumerate() {
            *b = seed.wrapping_mul(17).wrapping_add(i as u8 * 3 + 5);
        }
        let kp = Ed25519KeyPair::from_seed_unchecked(&s).unwrap();
        let privt = vpncloud::util::to_base62(&s);
        let pubt = vpncloud::util::to_base62(kp.public_key().as_ref());
        keys.push((CryptoConfig { private_key: Some(privt), ..Default::default() }, pubt));
    }
    KeyUniverse { keys }
}

fn node_cfg(u: &KeyUniverse, own: usize, trusted_mask: u8) -> CryptoConfig {
    let mut c = u.keys[own].0.clone();
    c.trusted_keys = (0..4).filter(|i| trusted_mask & (1 << i) != 0).map(|i| u.keys[i].1.clone()).collect();
    c
}

fn trusts(own: usize, mask: u8, other: usize) -> bool {
    if mask == 0 {
        other == own // "own key only"
    } else {
        mask & (1 << other) != 0
    }
}

pub fn trust_case(ctx: &Ctx, u: &KeyUniverse, a: (usize, u8), b: (usize, u8), initiator: usize) -> Vec<Viol> {
    ctx.eval();
    let case = json!({"kind": "trust", "a": [a.0, a.1], "b": [b.0, b.1], "initiator": initiator});
    let mut out = vec![];
    let ca = crypto_from(&node_cfg(u, a.0, a.1), node_id(1));
    let cb = crypto_from(&node_cfg(u, b.0, b.1), node_id(2));
    let (ca, cb) = match (ca, cb) {
        (Ok(x), Ok(y)) => (x, y),
        (x, y) => {
            out.push(Viol::new("trust-config-rejected", format!("configuration rejected: {:?} {:?}", x.err(), y.err()), case));
            return out;
        }
    };
    let mut pa = ca.peer_instance(node_info(1));
    let mut pb = cb.peer_instance(node_info(2));
    let expect = trusts(a.0, a.1, b.0) && trusts(b.0, b.1, a.0);
    let r = catch(|| if initiator == 0 { simple_handshake(&mut pa, &mut pb) } else { simple_handshake(&mut pb, &mut pa) });
    match r {
        Err(p) => out.push(Viol::new(format!("trust-{}", p.sig()), format!("panic: {}", p.msg), case)),
        Ok(HsOutcome::Done(..)) => {
            if !expect {
                out.push(Viol::new(
                    "peers-without-mutual-trust",
                    format!("nodes became peers although trust is not mutual: A(key {}, trusts {:04b}) B(key {}, trusts {:04b})", a.0, a.1, b.0, b.1),
                    case,
                ));
            }
        }
        Ok(HsOutcome::Failed(step, e)) => {
            if expect {
                out.push(Viol::new(
                    "mutual-trust-but-no-peers",
                    format!("mutually trusting nodes failed at step {}: {} (A key {} trusts {:04b}, B key {} trusts {:04b})", step, e, a.0, a.1, b.0, b.1),
                    case,
                ));
            } else if pa.is_ready() || pb.is_ready() {
                out.push(Viol::new("one-sided-connection", "one end considers the connection established without mutual trust".to_string(), case));
            }
        }
    }
    ctx.class(if expect { "trust:mutual" } else { "trust:not-mutual" });
    ctx.nontrivial(&("trust", a, b, initiator));
    out
}

// ---------------- (b) mutations ----------------

#[derive(Clone, Debug, Serialize, Deserialize, PartialEq)]
pub enum Mutation {
    BitFlip(usize),
    Truncate(usize),
    SetByte(usize, u8),
    /// edit inside the value of the part with this tag: (tag, byte offset in value, xor)
    Field(u8, usize, u8),
    /// change the length field of the part with this tag by delta
    FieldLen(u8, i16),
    /// stage value replaced
    Stage(u8),
    SigLen(u8),
    SigByte(usize, u8),
    /// swap parts i and i+1 (keeps signature)
    SwapParts(usize),
    DuplicatePart(usize),
    InsertUnknown(usize),
    /// same content, re-signed with an untrusted key; selector honest (false) or copied from the genuine message (true)
    Resign { copy_selector: bool, edit: u8 },
    /// random bytes behind the marker
    Random(usize, u64),
    /// valid TLV skeleton + random signature
    Skeleton(u64),
}

#[derive(Clone, Debug, Serialize, Deserialize)]
pub struct MutCase {
    /// receiver stage 0..=5 (fresh, awaiting pong, awaiting peng, completed initiator, completed responder, after linger)
    pub stage: u8,
    /// 1 ping, 2 pong, 3 peng
    pub kind: u8,
    pub mutation: Mutation,
}

struct Parsed {
    /// (tag, offset of tag byte, value offset, value length)
    parts: Vec<(u8, usize, usize, usize)>,
    end: usize,     // offset of the END byte
    sig_len_at: usize,
}

/// parses the TLV layout of a genuine handshake message (without marker)
fn layout(m: &[u8]) -> Option<Parsed> {
    let mut pos = 8;
    let mut parts = vec![];
    loop {
        let tag = *m.get(pos)?;
        if tag == 0 {
            break;
        }
        let len = ((*m.get(pos + 1)? as usize) << 8) | *m.get(pos + 2)? as usize;
        parts.push((tag, pos, pos + 3, len));
        pos += 3 + len;
    }
    Some(Parsed { parts, end: pos, sig_len_at: pos + 1 })
}

fn to_desc(m: &[u8]) -> Option<InitDesc> {
    let l = layout(m)?;
    let mut d = InitDesc { stage: 0, hash: [0; 20], ecdh: vec![], algos: vec![], payload: vec![], seed: [0x77; 32], unknown: vec![] };
    for (tag, _, v, n) in &l.parts {
        let val = &m[*v..*v + *n];
        match tag {
            1 => d.stage = val[0],
            2 => d.hash.copy_from_slice(val),
            3 => d.ecdh = val.to_vec(),
            4 => {
                d.algos = val.chunks(5).filter(|c| c.len() == 5).map(|c| (c[0], u32::from_be_bytes([c[1], c[2], c[3], c[4]]))).collect();
            }
            5 => d.payload = val.to_vec(),
            _ => {}
        }
    }
    Some(d)
}

fn xorshift(seed: u64, n: usize) -> Vec<u8> {
    let mut x = seed | 1;
    (0..n)
        .map(|_| {
            x ^= x << 13;
            x ^= x >> 7;
            x ^= x << 17;
            (x >> 16) as u8
        })
        .collect()
}

/// applies a mutation to a genuine message (without marker); None when not applicable
fn mutate(genuine: &[u8], mu: &Mutation) -> Option<Vec<u8>> {
    let l = layout(genuine)?;
    let mut m = genuine.to_vec();
    match mu {
        Mutation::BitFlip(b) => {
            if *b >= m.len() * 8 {
                return None;
            }
            m[b / 8] ^= 1 << (b % 8);
        }
        Mutation::Truncate(n) => {
            if *n >= m.len() {
                return None;
            }
            m.truncate(*n);
        }
        Mutation::SetByte(p, v) => {
            if *p >= m.len() || m[*p] == *v {
                return None;
            }
            m[*p] = *v;
        }
        Mutation::Field(tag, off, x) => {
            let (_, _, v, n) = l.parts.iter().find(|p| p.0 == *tag)?;
            if *n == 0 || *x == 0 {
                return None;
            }
            m[v + off % n] ^= x;
        }
        Mutation::FieldLen(tag, delta) => {
            let (_, p, _, n) = l.parts.iter().find(|p| p.0 == *tag)?;
            let nl = (*n as i32 + *delta as i32).clamp(0, 65535) as usize;
            if nl == *n {
                return None;
            }
            m[p + 1] = (nl >> 8) as u8;
            m[p + 2] = nl as u8;
        }
        Mutation::Stage(s) => {
            let (_, _, v, _) = l.parts.iter().find(|p| p.0 == 1)?;
            if m[*v] == *s {
                return None;
            }
            m[*v] = *s;
        }
        Mutation::SigLen(v) => {
            if m[l.sig_len_at] == *v {
                return None;
            }
            m[l.sig_len_at] = *v;
        }
        Mutation::SigByte(i, x) => {
            let n = m.len() - l.sig_len_at - 1;
            if n == 0 || *x == 0 {
                return None;
            }
            let p = l.sig_len_at + 1 + i % n;
            m[p] ^= x;
        }
        Mutation::SwapParts(i) => {
            if i + 1 >= l.parts.len() {
                return None;
            }
            let a = l.parts[*i];
            let b = l.parts[i + 1];
            let pa = genuine[a.1..a.2 + a.3].to_vec();
            let pb = genuine[b.1..b.2 + b.3].to_vec();
            let mut n = genuine[..a.1].to_vec();
            n.extend_from_slice(&pb);
            n.extend_from_slice(&pa);
            n.extend_from_slice(&genuine[b.2 + b.3..]);
            m = n;
        }
        Mutation::DuplicatePart(i) => {
            let a = *l.parts.get(*i)?;
            let pa = genuine[a.1..a.2 + a.3].to_vec();
            let mut n = genuine[..a.1].to_vec();
            n.extend_from_slice(&pa);
            n.extend_from_slice(&genuine[a.1..]);
            m = n;
        }
        Mutation::InsertUnknown(i) => {
            let at = l.parts.get(*i).map(|p| p.1).unwrap_or(l.end);
            let mut n = genuine[..at].to_vec();
            n.extend_from_slice(&[0x77, 0, 3, 1, 2, 3]);
            n.extend_from_slice(&genuine[at..]);
            m = n;
        }
        Mutation::Resign { copy_selector, edit } => {
            let mut d = to_desc(genuine)?;
            match edit % 4 {
                1 => d.payload = xorshift(*edit as u64, d.payload.len().max(4)),
                2 => {
                    if !d.ecdh.is_empty() {
                        d.ecdh[0] ^= 1
                    }
                }
                3 => d.algos.reverse(),
                _ => {}
            }
            let attacker = Ed25519KeyPair::from_seed_unchecked(&d.seed).ok()?;
            let mut salt = [0u8; 4];
            salt.copy_from_slice(&genuine[..4]);
            let mut forged = ref_encode_init(&d, &attacker, salt, false);
            if *copy_selector {
                // keep the genuine message's key selector so that the receiver picks the trusted key
                forged[..8].copy_from_slice(&genuine[..8]);
                // the signature then covers other bytes than those sent; also try signing the sent bytes
                let l2 = layout(&forged)?;
                let sig = attacker.sign(&forged[..l2.end + 1]);
                let at = l2.sig_len_at + 1;
                forged[at..at + 64].copy_from_slice(sig.as_ref());
            }
            m = forged;
        }
        Mutation::Random(n, seed) => {
            m = xorshift(*seed, *n);
        }
        Mutation::Skeleton(seed) => {
            // genuine selector + genuine TLV body + random signature
            let r = xorshift(*seed, 64);
            let at = l.sig_len_at + 1;
            let n = m.len();
            m[at..n].copy_from_slice(&r[..n - at]);
        }
    }
    Some(m)
}

fn snapshot(sim: &PairSim, side: usize) -> String {
    let e = &sim.ends[side];
    format!("ready={} init={} stage={:?} algo={} completed={} inflight={}", e.is_ready(), e.has_init(), e.verif_stage(), e.algorithm_name(), sim.completed[side], sim.inflight.len())
}

pub fn mut_case(ctx: &Ctx, c: &MutCase) -> Vec<Viol> {
    let cj = || json!({"kind": "mutation", "case": c});
    let mut out = vec![];
    let r = catch(|| {
        let mut sim = PairSim::simple(None);
        sim.tail = Some(0xa5);
        // twin exchange (same keys) supplying genuine messages of kinds not yet produced by the live one
        let mut twin = PairSim::simple(None);
        twin.init(0);
        let t_ping = twin.inflight[0].1.clone();
        twin.deliver(0);
        let t_pong = twin.inflight[0].1.clone();
        twin.deliver(0);
        let t_peng = twin.inflight[0].1.clone();
        // drive the live exchange to the stage
        sim.init(0);
        let mut live: [Option<Vec<u8>>; 3] = [Some(sim.inflight[0].1.clone()), None, None];
        let recv;
        match c.stage {
            0 => recv = 1,
            1 => {
                sim.deliver(0);
                live[1] = Some(sim.inflight[0].1.clone());
                recv = 0;
            }
            s => {
                sim.deliver(0);
                live[1] = Some(sim.inflight[0].1.clone());
                sim.deliver(0);
                live[2] = Some(sim.inflight[0].1.clone());
                match s {
                    2 => recv = 1,
                    3 => recv = 0,
                    4 => {
                        sim.deliver(0);
                        recv = 1;
                    }
                    _ => {
                        sim.deliver(0);
                        sim.settle();
                        for _ in 0..62 {
                            sim.tick(0);
                        }
                        sim.settle();
                        recv = 0;
                    }
                }
            }
        }
        let k = (c.kind.clamp(1, 3) - 1) as usize;
        let genuine_dgram = live[k].clone().unwrap_or_else(|| [t_ping.clone(), t_pong.clone(), t_peng.clone()][k].clone());
        let genuine = &genuine_dgram[1..]; // without marker
        let mutated = match mutate(genuine, &c.mutation) {
            Some(m) => m,
            None => return None,
        };
        // effective bytes the parser sees = datagram + stale tail
        let eff_len = genuine.len().max(mutated.len());
        let mut eff = mutated.clone();
        eff.resize(eff_len, 0xa5);
        if eff[..genuine.len()] == genuine[..] {
            return Some(("verbatim", vec![]));
        }
        let mut dgram = vec![0xffu8];
        dgram.extend_from_slice(&mutated);
        let before = snapshot(&sim, recv);
        let events_before = sim.events.len();
        let res = sim.feed(recv, &dgram);
        let after = snapshot(&sim, recv);
        let mut v = vec![];
        let fatal = sim.events[events_before..].iter().any(|e| matches!(e, Event::Error { fatal: true, .. }));
        let what = format!("stage {} receiver, {} with {:?}", c.stage, ["ping", "pong", "peng"][k], c.mutation);
        match &res {
            Ok(r) => v.push(Viol::new(
                format!("forged-handshake-message-accepted/{}", mutation_class(&c.mutation)),
                format!("{}: not rejected (result {}), datagram {}", what, r, hex(&dgram[..dgram.len().min(48)])),
                cj(),
            )),
            Err(e) => {
                if fatal {
                    v.push(Viol::new(
                        format!("forged-handshake-message-fatal/{}", mutation_class(&c.mutation)),
                        format!("{}: rejected with a FATAL error ({}), which makes a node drop its handshake in progress", what, e),
                        cj(),
                    ));
                }
            }
        }
        if before != after {
            v.push(Viol::new(
                format!("forged-handshake-message-changes-state/{}", mutation_class(&c.mutation)),
                format!("{}: receiver state changed from [{}] to [{}]", what, before, after),
                cj(),
            ));
        }
        // the genuine exchange continues from that stage and completes with agreement
        sim.settle();
        if !sim.both_ready() {
            // in-order delivery plus retransmission ticks
            for _ in 0..3 {
                sim.tick(0);
                sim.settle();
                sim.tick(1);
                sim.settle();
            }
        }
        if !sim.both_ready() {
            v.push(Viol::new(
                format!("handshake-in-progress-broken/{}", mutation_class(&c.mutation)),
                format!("{}: afterwards the genuine exchange no longer completes (completed {:?})", what, sim.completed),
                cj(),
            ));
        } else {
            for from in 0..2 {
                if let Err(e) = sim.probe(from) {
                    v.push(Viol::new("connection-broken-after-forgery", format!("{}: {}", what, e), cj()));
                }
            }
        }
        Some(("checked", v))
    });
    match r {
        Err(p) => out.push(Viol::new(format!("mutation-{}", p.sig()), format!("panic: {} at {}", p.msg, p.loc), cj())),
        Ok(None) => {}
        Ok(Some((cls, v))) => {
            ctx.eval();
            ctx.class(&format!("mutation:{}:{}", cls, mutation_class(&c.mutation)));
            if cls == "checked" {
                ctx.nontrivial(&(c.stage, c.kind, format!("{:?}", c.mutation)));
            }
            out.extend(v);
        }
    }
    out
}

fn mutation_class(m: &Mutation) -> &'static str {
    match m {
        Mutation::BitFlip(_) => "bit-flip",
        Mutation::Truncate(_) => "truncation",
        Mutation::SetByte(..) | Mutation::Field(..) | Mutation::Stage(_) => "field-edit",
        Mutation::FieldLen(..) | Mutation::SigLen(_) => "length-edit",
        Mutation::SigByte(..) => "signature-edit",
        Mutation::SwapParts(_) | Mutation::DuplicatePart(_) | Mutation::InsertUnknown(_) => "structure-edit",
        Mutation::Resign { .. } => "re-signed-with-untrusted-key",
        Mutation::Random(..) | Mutation::Skeleton(_) => "random",
    }
}

fn field_edits() -> Vec<Mutation> {
    let mut v = vec![];
    for s in [0u8, 1, 2, 3, 4, 5, 255] {
        v.push(Mutation::Stage(s));
    }
    for i in 0..20 {
        v.push(Mutation::Field(2, i, 0x01));
    }
    for i in [0usize, 1, 15, 16, 31] {
        v.push(Mutation::Field(3, i, 0x80));
        v.push(Mutation::Field(3, i, 0x01));
    }
    for d in [-32i16, -1, 1, 2, 64, 1000] {
        v.push(Mutation::FieldLen(3, d));
        v.push(Mutation::FieldLen(4, d));
        v.push(Mutation::FieldLen(5, d));
        v.push(Mutation::FieldLen(2, d));
        v.push(Mutation::FieldLen(1, d));
    }
    for i in 0..15 {
        v.push(Mutation::Field(4, i, 0x01)); // cipher ids and speeds
        v.push(Mutation::Field(4, i, 0x40));
    }
    for i in [0usize, 1, 7, 8, 9, 20, 50, 100, 150, 200] {
        v.push(Mutation::Field(5, i, 0x01));
        v.push(Mutation::Field(5, i, 0xff));
    }
    for l in [0u8, 1, 32, 63, 65, 128, 255] {
        v.push(Mutation::SigLen(l));
    }
    for i in [0usize, 1, 31, 32, 63] {
        v.push(Mutation::SigByte(i, 0x01));
        v.push(Mutation::SigByte(i, 0x80));
    }
    for i in 0..5 {
        v.push(Mutation::SwapParts(i));
        v.push(Mutation::DuplicatePart(i));
        v.push(Mutation::InsertUnknown(i));
    }
    for p in 0..8 {
        v.push(Mutation::SetByte(p, 0));
        v.push(Mutation::SetByte(p, 0xff));
    }
    for e in 0..4u8 {
        v.push(Mutation::Resign { copy_selector: false, edit: e });
        v.push(Mutation::Resign { copy_selector: true, edit: e });
    }
    for s in 0..6u64 {
        v.push(Mutation::Skeleton(s + 1));
    }
    v
}

fn natural_stage(kind: u8) -> u8 {
    match kind {
        1 => 0,
        2 => 1,
        _ => 2,
    }
}

pub fn run(ctx: &Ctx) {
    ctx.rule(
        "(a) trust: 4 key pairs (2 password-derived through key generation + config parsing, 2 explicit), node = own \
         key x trusted subset (empty = own key only): all 64 x 64 node pairs x both initiators as real handshakes; \
         oracle peers <=> mutual trust. (b) forgeries: genuine ping/pong/peng captured from a live exchange of real \
         PeerCrypto objects, mutated (every single-bit flip, every truncation with a differing stale tail, field / \
         length / signature / structure edits, re-signing with an untrusted key with honest and copied key selector, \
         random bytes and valid skeleton + random signature behind the marker) and fed to the receiver in each of 6 \
         stages; oracle: error, not fatal, state unchanged, no reply, then the genuine exchange completes and probes \
         open both ways. Non-trivial = effective bytes differ from the genuine message; distinct = (stage, kind, \
         mutation).",
    );
    ctx.assume("a truncated message whose stale tail equals the removed bytes is a verbatim replay and is classified, not judged");
    ctx.assume("2^-32 accidental key-selector matches and Ed25519 forgeries are outside the search");

    // (a)
    let u = key_universe();
    ctx.par_range(64 * 64, |_, i| {
        let a = ((i / 64 / 16) as usize, (i / 64 % 16) as u8);
        let b = ((i % 64 / 16) as usize, (i % 16) as u8);
        for ini in 0..2 {
            let v = trust_case(ctx, &u, a, b, ini);
            ctx.report(v);
        }
    });
    ctx.subspace("trust: 64 x 64 node configurations x both initiators", 8192, true);
    ctx.sample("trust", || json!({"a": {"own_key": 0, "trusted_mask": "0110"}, "b": {"own_key": 2, "trusted_mask": "0001"}, "expected": "peers (mutual)"}));

    // message sizes (from one exchange) to size the exhaustive loops
    let mut probe = PairSim::simple(None);
    probe.init(0);
    let ping_len = probe.inflight[0].1.len() - 1;
    probe.deliver(0);
    let pong_len = probe.inflight[0].1.len() - 1;
    probe.deliver(0);
    let peng_len = probe.inflight[0].1.len() - 1;
    let lens = [ping_len, pong_len, peng_len];
    ctx.extra("genuine_message_sizes", json!({"ping": ping_len, "pong": pong_len, "peng": peng_len}));

    // (b1) every single-bit flip, natural receiver stage; every 5th bit at every other stage
    let mut cases: Vec<MutCase> = vec![];
    for kind in 1..=3u8 {
        let n = lens[kind as usize - 1];
        for bit in 0..n * 8 {
            cases.push(MutCase { stage: natural_stage(kind), kind, mutation: Mutation::BitFlip(bit) });
            let stride = ctx.tier.pick(11, 3);
            if bit % stride == 0 {
                for stage in 0..6u8 {
                    if stage != natural_stage(kind) {
                        cases.push(MutCase { stage, kind, mutation: Mutation::BitFlip(bit) });
                    }
                }
            }
        }
    }
    let nflip = cases.len() as u64;
    ctx.par_items(&cases, |_, c| {
        let v = mut_case(ctx, c);
        ctx.report(v);
    });
    ctx.subspace("every single-bit flip of ping/pong/peng at the natural receiver stage + strided flips at all 6 stages", nflip, true);
    ctx.sample("bit-flip", || serde_json::to_value(&cases[100]).unwrap());

    // (b2) every truncation, all stages for ping, natural + 2 others for pong/peng
    let mut cases: Vec<MutCase> = vec![];
    for kind in 1..=3u8 {
        for n in 0..lens[kind as usize - 1] {
            for stage in 0..6u8 {
                if stage == natural_stage(kind) || (n + stage as usize) % 4 == 0 {
                    cases.push(MutCase { stage, kind, mutation: Mutation::Truncate(n) });
                }
            }
        }
    }
    let ntr = cases.len() as u64;
    ctx.par_items(&cases, |_, c| {
        let v = mut_case(ctx, c);
        ctx.report(v);
    });
    ctx.subspace("every truncation length of ping/pong/peng (natural stage; every 4th at the other stages)", ntr, true);

    // (b3) field edits / forgeries x all stages x kinds
    let edits = field_edits();
    let mut cases: Vec<MutCase> = vec![];
    for stage in 0..6u8 {
        for kind in 1..=3u8 {
            for e in &edits {
                cases.push(MutCase { stage, kind, mutation: e.clone() });
            }
        }
    }
    let ned = cases.len() as u64;
    ctx.par_items(&cases, |_, c| {
        let v = mut_case(ctx, c);
        if matches!(c.mutation, Mutation::Resign { copy_selector: true, edit: 1 }) && c.stage == 2 {
            ctx.sample("forgery", || serde_json::to_value(c).unwrap());
        }
        ctx.report(v);
    });
    ctx.subspace(&format!("{} field/length/signature/structure edits and re-signed forgeries x 6 stages x 3 kinds", edits.len()), ned, true);

    // (b4) random datagrams behind the marker
    let n: u32 = ctx.tier.pick(12_000, 120_000);
    ctx.proptest(
        "pt-random",
        n,
        || (0u8..6, 1u8..=3, prop_oneof![(0usize..300, any::<u64>()).prop_map(|(n, s)| Mutation::Random(n, s)), any::<u64>().prop_map(Mutation::Skeleton), (any::<usize>(), any::<u8>()).prop_map(|(p, v)| Mutation::SetByte(p % 400, v))]),
        |(stage, kind, mutation)| mut_case(ctx, &MutCase { stage: *stage, kind: *kind, mutation: mutation.clone() }),
    );
    ctx.subspace("proptest: random datagrams (0..300 bytes), skeleton + random signature, random byte substitutions", n as u64, false);

    crate::props::node_level::c01_node(ctx);
}

pub fn replay(ctx: &Ctx, case: &Value) {
    match case["kind"].as_str() {
        Some("trust") => {
            let u = key_universe();
            let g = |k: &str, i: usize| case[k][i].as_u64().unwrap_or(0);
            let v = trust_case(ctx, &u, (g("a", 0) as usize, g("a", 1) as u8), (g("b", 0) as usize, g("b", 1) as u8), case["initiator"].as_u64().unwrap_or(0) as usize);
            ctx.report(v);
        }
        Some("mutation") => {
            if let Ok(c) = serde_json::from_value::<MutCase>(case["case"].clone()) {
                for _ in 0..8 {
                    let v = mut_case(ctx, &c);
                    ctx.report(v);
                }
            }
        }
        Some(_) => crate::props::node_level::replay(ctx, case),
        None => {}
    }
    let _ = key_selector;
}
