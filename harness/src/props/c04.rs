//! C04 - no (key, nonce) pair is ever used twice.
//! Oracle: invariants over the guarded seal log (key fingerprint, 12-byte nonce) of both ends of
//! simulated connection lifetimes; u128 reference for the counter increment; 56-bit limit.

use crate::engine::{hex, Ctx, Viol};
use crate::props::c03::algo;
use crate::props::c05::Act;
use crate::sim::{catch, new_buf, PairSim};
use proptest::prelude::*;
use serde::{Deserialize, Serialize};
use serde_json::{json, Value};
use std::collections::{BTreeMap, BTreeSet};
use vpncloud::crypto::verif::{create_dummy_pair, verif_increment, verif_seal_log_enable, verif_seal_log_take, VerifSeal};

#[derive(Clone, Debug, Serialize, Deserialize)]
pub struct Life {
    pub orientation: bool,
    /// handshake phase: schedule in the C05 alphabet
    pub handshake: Vec<Act>,
    /// operation phase: per rotation half-cycle (side alternates) how many probes each direction sends and
    /// whether the rotation datagram emitted in that half-cycle is lost
    pub cycles: Vec<(u8, u8, bool)>,
}

fn cj(l: &Life) -> Value {
    json!({"kind": "lifetime", "life": l})
}

pub fn check_logs(logs: &[Vec<VerifSeal>; 2], case: &Value, out: &mut Vec<Viol>) -> (usize, bool) {
    // 1. no duplicate (fingerprint, nonce)
    let mut seen: BTreeSet<([u8; 16], [u8; 12])> = BTreeSet::new();
    for (side, log) in logs.iter().enumerate() {
        for s in log {
            if !seen.insert((s.fingerprint, s.nonce)) {
                out.push(Viol::new(
                    "key-nonce-pair-reused",
                    format!("end {} sealed with key {} and nonce {} which was used before", side, hex(&s.fingerprint[..4]), hex(&s.nonce)),
                    case.clone(),
                ));
                return (0, false);
            }
        }
    }
    // 2. per (end, key) strictly increasing; 3. halves
    let mut fps: BTreeMap<[u8; 16], [bool; 2]> = BTreeMap::new();
    let mut halves: [BTreeSet<u8>; 2] = [BTreeSet::new(), BTreeSet::new()];
    for (side, log) in logs.iter().enumerate() {
        let mut last: BTreeMap<[u8; 16], [u8; 12]> = BTreeMap::new();
        let mut order: Vec<[u8; 16]> = vec![];
        for s in log {
            fps.entry(s.fingerprint).or_insert([false, false])[side] = true;
            halves[side].insert(s.nonce[0]);
            if let Some(prev) = last.get(&s.fingerprint) {
                if s.nonce <= *prev {
                    out.push(Viol::new(
                        "counter-not-increasing",
                        format!("end {}: nonce {} follows {} under the same key", side, hex(&s.nonce), hex(prev)),
                        case.clone(),
                    ));
                    return (0, false);
                }
            } else {
                // a key seen for the first time by this end: fresh sequence, not the continuation of the sequence of
                // any earlier key of this end (the previous one, or the one that occupied the same slot 4 rotations ago)
                for (age, prev_fp) in order.iter().rev().enumerate() {
                    let cont = verif_increment(last[prev_fp]);
                    if cont == s.nonce {
                        out.push(Viol::new(
                            "rotated-key-continues-old-sequence",
                            format!("end {}: a new key starts exactly where the counter of the key used {} rotations earlier stopped ({})", side, age + 1, hex(&s.nonce)),
                            case.clone(),
                        ));
                    }
                }
                order.push(s.fingerprint);
            }
            last.insert(s.fingerprint, s.nonce);
        }
    }
    for side in 0..2 {
        if halves[side].len() > 1 || halves[side].iter().any(|h| *h != 0 && *h != 0x80) {
            out.push(Viol::new("nonce-half-changes", format!("end {} sealed with first nonce bytes {:?}", side, halves[side]), case.clone()));
        }
    }
    if !halves[0].is_empty() && !halves[1].is_empty() && halves[0] == halves[1] {
        out.push(Viol::new("same-nonce-half", format!("both ends seal in the half {:?}", halves[0]), case.clone()));
    }
    let shared = fps.values().filter(|v| v[0] && v[1]).count();
    (fps.len(), shared > 0)
}

pub fn run_life(ctx: &Ctx, l: &Life) -> Vec<Viol> {
    ctx.eval();
    let mut out = vec![];
    verif_seal_log_enable(true);
    let r = catch(|| {
        let mut sim = PairSim::simple(Some(l.orientation));
        sim.log_seals = true;
        for a in &l.handshake {
            match *a {
                Act::InitA => {
                    sim.init(0);
                }
                Act::InitB => {
                    sim.init(1);
                }
                Act::Deliver(i) => {
                    sim.deliver(i as usize);
                }
                Act::DeliverNewest => {
                    let n = sim.inflight.len();
                    if n > 0 {
                        sim.deliver(n - 1);
                    }
                }
                Act::Dup(i) => {
                    sim.dup(i as usize);
                }
                Act::Drop(i) => {
                    sim.drop_msg(i as usize);
                }
                Act::TickA => sim.tick(0),
                Act::TickB => sim.tick(1),
            }
        }
        // make sure the connection exists (reliable completion), otherwise the lifetime is trivial
        if !sim.both_ready() {
            if sim.ends[0].verif_stage() == Some(1) && sim.ends[1].verif_stage() == Some(1) {
                sim.init(0);
            }
            for _ in 0..6 {
                sim.settle();
                if sim.both_ready() {
                    break;
                }
                sim.tick(0);
                sim.settle();
                sim.tick(1);
            }
            sim.settle();
        }
        if !sim.both_ready() {
            return (sim.seal_logs, 0u32, false);
        }
        // both ends seal under the handshake key before the first rotation
        let mut wire_checks = 0u32;
        let mut probe = |sim: &mut PairSim, from: usize, out: &mut Vec<Viol>| {
            let before = sim.seal_logs[from].len();
            if let Ok((wire, _)) = sim.seal_probe(from) {
                wire_checks += 1;
                if let Some(entry) = sim.seal_logs[from].get(before) {
                    let slot = sim.ends[from].verif_core().map(|c| c.verif_current_key()).unwrap_or(9);
                    if wire[0] as usize != slot || wire[1..8] != entry.nonce[5..12] {
                        out.push(Viol::new(
                            "wire-header-differs-from-nonce",
                            format!("header {} does not carry key slot {} and the low 7 nonce bytes of {}", hex(&wire[..8]), slot, hex(&entry.nonce)),
                            cj(l),
                        ));
                    }
                    if entry.nonce[1..5] != [0, 0, 0, 0] {
                        out.push(Viol::new("untransmitted-nonce-bytes-nonzero", format!("nonce {} has non-zero untransmitted bytes at start of life", hex(&entry.nonce)), cj(l)));
                    }
                }
                // deliver so that windows advance like in real traffic
                let n = sim.events.len();
                let _ = sim.feed(1 - from, &wire);
                sim.events.truncate(n);
            }
        };
        probe(&mut sim, 0, &mut out);
        probe(&mut sim, 1, &mut out);
        for (i, (pa, pb, lose)) in l.cycles.iter().enumerate() {
            let side = i % 2;
            for _ in 0..120 {
                sim.tick(side);
            }
            if *lose {
                sim.inflight.clear();
            }
            sim.settle();
            for _ in 0..(*pa % 4) {
                probe(&mut sim, 0, &mut out);
            }
            for _ in 0..(*pb % 4) {
                probe(&mut sim, 1, &mut out);
            }
        }
        (sim.seal_logs, wire_checks, true)
    });
    verif_seal_log_take();
    verif_seal_log_enable(false);
    match r {
        Err(p) => out.push(Viol::new(format!("lifetime-{}", p.sig()), format!("panic: {} at {}", p.msg, p.loc), cj(l))),
        Ok((logs, _wire_checks, connected)) => {
            let (nkeys, shared) = check_logs(&logs, &cj(l), &mut out);
            if connected {
                ctx.class(&format!("lifetime:keys>={}", (nkeys / 10) * 10));
                if nkeys >= 2 && shared {
                    ctx.nontrivial(&format!("{:?}", l));
                }
            } else {
                ctx.class("lifetime:no-connection");
            }
        }
    }
    out
}

fn ref_increment(b: [u8; 12]) -> [u8; 12] {
    let mut v: u128 = 0;
    for x in b {
        v = (v << 8) | x as u128;
    }
    v = (v + 1) & ((1u128 << 96) - 1);
    let mut out = [0u8; 12];
    for i in 0..12 {
        out[11 - i] = (v >> (8 * i)) as u8;
    }
    out
}

fn check_increment(ctx: &Ctx, b: [u8; 12]) {
    ctx.eval();
    let got = verif_increment(b);
    let exp = ref_increment(b);
    if got != exp {
        ctx.violation(Viol::new(
            "counter-increment-wrong",
            format!("increment({}) = {}, expected {}", hex(&b), hex(&got), hex(&exp)),
            json!({"kind": "increment", "value": hex(&b)}),
        ));
    }
    if b[11] == 0xff {
        ctx.nontrivial(&("inc", b));
    }
}

pub fn limit_case(ctx: &Ctx, cipher: u8, which_end: usize, below: u64) -> Vec<Viol> {
    ctx.eval();
    let case = json!({"kind": "limit", "cipher": cipher, "end": which_end, "below": below});
    let mut out = vec![];
    verif_seal_log_enable(true);
    let r = catch(|| {
        let (mut a, mut b) = create_dummy_pair(algo(cipher));
        let (snd, rcv) = if which_end == 0 { (&mut a, &mut b) } else { (&mut b, &mut a) };
        // counter = 2^56 - below - 1, so that `below` seals still fit the 56 transmitted bits
        let start: u64 = (1u64 << 56) - 1 - below;
        let mut n = snd.verif_send_nonce();
        n[1] = 0;
        n[2] = 0;
        n[3] = 0;
        n[4] = 0;
        n[5..12].copy_from_slice(&start.to_be_bytes()[1..8]);
        snd.verif_set_send_nonce(n);
        let mut verdicts = vec![];
        for k in 0..(below + 4) {
            let mut buf = new_buf();
            buf.set_length(5);
            buf.message_mut().copy_from_slice(b"hello");
            snd.encrypt(&mut buf);
            let ok = rcv.decrypt(&mut buf).is_ok() && buf.message() == b"hello";
            verdicts.push((k, ok));
        }
        verdicts
    });
    let log = verif_seal_log_take();
    verif_seal_log_enable(false);
    match r {
        Err(p) => out.push(Viol::new(format!("limit-{}", p.sig()), format!("panic at the 56-bit limit: {}", p.msg), case.clone())),
        Ok(verdicts) => {
            for (k, ok) in verdicts {
                let fits = k < below;
                if fits && !ok {
                    out.push(Viol::new("counter-below-limit-rejected", format!("seal #{} still fits 56 bits but did not open", k), case.clone()));
                }
                if !fits && ok {
                    out.push(Viol::new("counter-wraps-onto-used-values", format!("seal #{} exceeds 56 bits but was accepted by the peer", k), case.clone()));
                }
            }
            let uniq: BTreeSet<_> = log.iter().map(|s| (s.fingerprint, s.nonce)).collect();
            if uniq.len() != log.len() {
                out.push(Viol::new("key-nonce-pair-reused", "duplicate nonce around the 56-bit limit".to_string(), case.clone()));
            }
            ctx.nontrivial(&("limit", cipher, which_end, below));
        }
    }
    out
}

fn act_strategy() -> impl Strategy<Value = Act> {
    prop_oneof![
        2 => Just(Act::InitA),
        2 => Just(Act::InitB),
        6 => (0u8..3).prop_map(Act::Deliver),
        1 => Just(Act::DeliverNewest),
        1 => (0u8..3).prop_map(Act::Dup),
        1 => (0u8..3).prop_map(Act::Drop),
        1 => Just(Act::TickA),
        1 => Just(Act::TickB),
    ]
}

pub fn run(ctx: &Ctx) {
    ctx.rule(
        "(a) connection lifetimes on real PeerCrypto pairs: generated handshake schedule (either/both initiators, \
         loss, duplication, reordering) followed by up to 80 rotation half-cycles with probes in both directions and \
         lost rotation datagrams; the guarded seal log (key fingerprint, full nonce) of both ends must show no \
         repeated pair, strictly increasing nonces per (end, key), constant and different halves, fresh sequences for \
         rotated keys, and wire headers equal to slot + low 7 nonce bytes. (b) counter increment on all carry-boundary \
         patterns + random values vs a u128 reference. (c) counters around 2^56: seals that fit open, the others must \
         fail to open. (d) first counters of fresh connections pairwise distinct. Non-trivial = lifetime with >= 2 \
         keys and a key used by both ends / increment with carry / limit case; distinct = whole case.",
    );
    ctx.assume("unpredictability of the start value is SystemRandom's; only distinctness / non-constancy is tested");

    // (b) carry patterns: k trailing 0xff bytes preceded by a boundary byte, prefix classes
    let mut count = 0u64;
    for k in 0..=12usize {
        for pre in [0x00u8, 0x7f, 0x80, 0xfe, 0xff] {
            for prefix in [0x00u8, 0x01, 0x80, 0xff, 0x5a] {
                for first in [0x00u8, 0x80, 0xff] {
                    let mut b = [prefix; 12];
                    b[0] = first;
                    for i in 0..k {
                        b[11 - i] = 0xff;
                    }
                    if k < 12 {
                        b[11 - k] = pre;
                    }
                    check_increment(ctx, b);
                    count += 1;
                }
            }
        }
    }
    ctx.subspace("counter increment: k trailing 0xff bytes (k=0..=12) x boundary byte x prefix class x first byte", count, true);
    let nr: u64 = ctx.tier.pick(100_000, 2_000_000);
    ctx.par_range_chunked(nr, 10_000, |_, i| {
        let mut rng = ctx.rng("inc", (i / 10_000) as usize);
        if i % 10_000 == 0 {
            for _ in 0..10_000 {
                let mut b = [0u8; 12];
                rng.fill_bytes(&mut b);
                let k = (rng.next_u32() % 8) as usize;
                for j in 0..k {
                    b[11 - j] = 0xff;
                }
                check_increment(ctx, b);
            }
        }
    });
    ctx.subspace("counter increment: random values with 0..7 trailing 0xff bytes", nr, false);

    // (c) 56-bit limit
    for cipher in 0..3u8 {
        for end in 0..2 {
            for below in [0u64, 1, 2, 3, 5, 255, 256] {
                let v = limit_case(ctx, cipher, end, below);
                ctx.report(v);
            }
        }
    }
    ctx.subspace("56-bit limit: 3 ciphers x both ends x counters starting 0..256 below 2^56", 42, true);

    // (d) fresh connections: first counters distinct, not an arithmetic progression
    ctx.eval();
    let mut firsts = vec![];
    for i in 0..256 {
        let (mut a, _b) = create_dummy_pair(algo(i as u8));
        let mut buf = new_buf();
        buf.set_length(1);
        a.encrypt(&mut buf);
        let mut c = [0u8; 8];
        c[1..].copy_from_slice(&buf.message()[1..8]);
        firsts.push(u64::from_be_bytes(c));
    }
    let set: BTreeSet<u64> = firsts.iter().copied().collect();
    let diffs: BTreeSet<u64> = firsts.windows(2).map(|w| w[1].wrapping_sub(w[0])).collect();
    if set.len() != firsts.len() || diffs.len() < 200 {
        ctx.violation(Viol::new(
            "predictable-counter-start",
            format!("256 fresh connections: {} distinct first counters, {} distinct successive differences", set.len(), diffs.len()),
            json!({"kind": "start"}),
        ));
    }
    ctx.subspace("256 fresh connections: first transmitted counters pairwise distinct, differences not constant", 256, true);

    // (a) lifetimes
    let n: u32 = ctx.tier.pick(2_000, 20_000);
    ctx.proptest(
        "pt-life",
        n,
        || (any::<bool>(), proptest::collection::vec(act_strategy(), 1..14), proptest::collection::vec((0u8..4, 0u8..4, proptest::bool::weighted(0.15)), 4..80)),
        |(o, hs, cycles)| {
            let l = Life { orientation: *o, handshake: hs.clone(), cycles: cycles.clone() };
            let v = run_life(ctx, &l);
            if cycles.len() < 8 {
                ctx.sample("lifetime", || serde_json::to_value(&l).unwrap());
            }
            v
        },
    );
    ctx.subspace("proptest connection lifetimes: handshake schedule + 4..80 rotation half-cycles with probes and losses", n as u64, false);

    // node level
    let lifes: Vec<(usize, u32, u8)> = ctx.tier.pick(
        vec![(2, 700, 0), (2, 700, 1), (3, 500, 2), (3, 900, 0)],
        vec![(2, 700, 0), (2, 3000, 1), (2, 1500, 2), (3, 500, 2), (3, 2000, 0), (4, 1200, 1), (5, 800, 2)],
    );
    ctx.par_items(&lifes, |_, (n, s, c)| {
        let v = node_life(ctx, *n, *s, *c);
        ctx.report(v);
    });
    ctx.subspace("node level: meshes of 2-5 real nodes (everybody dials everybody), broadcast traffic, 500-3000 s: global seal log", lifes.len() as u64, true);
}

/// node level: a mesh of real nodes with traffic over several rotation intervals; the seal log of the whole
/// simulation (all nodes of this thread) must not contain a repeated (key, nonce) pair, and a key is never used
/// with more than the two nonce halves of its two ends
pub fn node_life(ctx: &Ctx, nodes: usize, seconds: u32, cipher: u8) -> Vec<Viol> {
    ctx.eval();
    let case = json!({"kind": "node-life", "nodes": nodes, "seconds": seconds, "cipher": cipher});
    let mut out = vec![];
    verif_seal_log_enable(true);
    let r = catch(|| {
        let mut sim: crate::sim::NetSim<vpncloud::payload::Frame> = crate::sim::NetSim::new();
        for _ in 0..nodes {
            let mut cfg = crate::sim::base_config();
            cfg.mode = vpncloud::types::Mode::Switch;
            cfg.auto_claim = false;
            cfg.crypto.algorithms = vec![["aes128", "aes256", "chacha20"][cipher as usize % 3].to_string()];
            sim.add_node(&cfg, false);
        }
        // everybody dials everybody: dual opens included
        for i in 0..nodes {
            for j in 0..nodes {
                if i != j {
                    let a = sim.addr(j);
                    sim.connect(i, a);
                }
            }
        }
        sim.settle();
        for t in 0..seconds {
            sim.tick();
            if t % 7 == 0 {
                for i in 0..nodes {
                    sim.put_payload(i, crate::sim::eth_frame([0xff; 6], [2, 0, 0, 0, 0, i as u8], None, &[t as u8; 30]));
                }
                sim.settle();
                for i in 0..nodes {
                    sim.take_iface(i);
                }
            }
        }
        sim.all_connected() && sim.panics.is_empty()
    });
    let log = verif_seal_log_take();
    verif_seal_log_enable(false);
    match r {
        Err(p) => out.push(Viol::new(format!("node-life-{}", p.sig()), p.msg, case.clone())),
        Ok(ok) => {
            if !ok {
                out.push(Viol::new("node-life-mesh", "mesh not connected or a node panicked".to_string(), case.clone()));
            }
            let mut seen: BTreeSet<([u8; 16], [u8; 12])> = BTreeSet::new();
            let mut halves: BTreeMap<[u8; 16], BTreeSet<u8>> = BTreeMap::new();
            for s in &log {
                if !seen.insert((s.fingerprint, s.nonce)) {
                    out.push(Viol::new(
                        "key-nonce-pair-reused",
                        format!("node level: key {} sealed twice with nonce {}", hex(&s.fingerprint[..4]), hex(&s.nonce)),
                        case.clone(),
                    ));
                    break;
                }
                halves.entry(s.fingerprint).or_default().insert(s.nonce[0]);
            }
            if halves.values().any(|h| h.iter().any(|b| *b != 0 && *b != 0x80)) {
                out.push(Viol::new("nonce-half-changes", "a nonce with a first byte other than 00 / 80 was used".to_string(), case.clone()));
            }
            ctx.class(&format!("node-life:keys>={}", (halves.len() / 10) * 10));
            if halves.len() >= 4 {
                ctx.nontrivial(&("node-life", nodes, seconds, cipher));
            }
        }
    }
    out
}

pub fn replay(ctx: &Ctx, case: &Value) {
    match case["kind"].as_str() {
        Some("lifetime") => {
            if let Ok(l) = serde_json::from_value::<Life>(case["life"].clone()) {
                for _ in 0..8 {
                    let v = run_life(ctx, &l);
                    ctx.report(v);
                }
            }
        }
        Some("increment") => {
            let b = crate::engine::unhex(case["value"].as_str().unwrap_or(""));
            if b.len() == 12 {
                let mut x = [0u8; 12];
                x.copy_from_slice(&b);
                check_increment(ctx, x);
            }
        }
        Some("node-life") => {
            let v = node_life(ctx, case["nodes"].as_u64().unwrap_or(2) as usize, case["seconds"].as_u64().unwrap_or(500) as u32, case["cipher"].as_u64().unwrap_or(0) as u8);
            ctx.report(v);
        }
        Some("limit") => {
            let v = limit_case(ctx, case["cipher"].as_u64().unwrap_or(0) as u8, case["end"].as_u64().unwrap_or(0) as usize, case["below"].as_u64().unwrap_or(0));
            ctx.report(v);
        }
        _ => {}
    }
}
