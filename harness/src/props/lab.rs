//! Injection lab: a real node T in a chosen receiver state (built by real handshakes with a real
//! peer P), a third party Q, genuine datagrams captured on the way, and an oracle that compares
//! T's externally relevant state before and after an injected datagram.

use crate::sim::{base_config, eth_frame, Datagram, NetSim};
use serde::{Deserialize, Serialize};
use std::net::SocketAddr;
use vpncloud::payload::Frame;
use vpncloud::types::Mode;

#[derive(Clone, Copy, Debug, Serialize, Deserialize, PartialEq, Eq, Hash)]
pub enum RState {
    /// T has never heard of the sender
    Unknown,
    /// T dialled P, ping sent, nothing back yet
    PendingInitiator,
    /// P dialled T, T answered with pong and waits for peng
    PendingResponder,
    /// T established as initiator, handshake object still lingering (< 60 s)
    EstLinger,
    /// T established as initiator, handshake object gone (61 s later)
    EstNoLinger,
    /// T established as responder (no handshake object)
    EstResponder,
    /// established without cipher (both enabled plain): only crash-freedom is demanded
    EstPlain,
}

pub const ALL_STATES: [RState; 7] =
    [RState::Unknown, RState::PendingInitiator, RState::PendingResponder, RState::EstLinger, RState::EstNoLinger, RState::EstResponder, RState::EstPlain];

#[derive(Default, Clone)]
pub struct Captured {
    pub ping: Vec<u8>,
    pub pong: Vec<u8>,
    pub peng: Vec<u8>,
    pub rotation: Vec<u8>,
    pub node_info: Vec<u8>,
    pub data: Vec<u8>,
    /// genuine ping / pong / peng of an exchange between two OTHER trusted nodes (same key), recorded elsewhere
    pub foreign: [Vec<u8>; 3],
}

pub struct Lab {
    pub sim: NetSim<Frame>,
    pub t: usize,
    pub p: usize,
    pub q: usize,
    pub state: RState,
    pub cap: Captured,
    /// an address that belongs to nobody
    pub stranger: SocketAddr,
}

/// number of genuine datagram kinds a lab offers (6 of the lab's own exchanges + 3 foreign handshake messages)
pub const KINDS: usize = 9;
pub const T: usize = 0;
pub const P: usize = 1;
pub const Q: usize = 2;

impl Lab {
    pub fn build(state: RState) -> Lab {
        let mut sim: NetSim<Frame> = NetSim::new();
        let mut cfg = base_config();
        cfg.mode = Mode::Switch;
        cfg.auto_claim = false;
        if state == RState::EstPlain {
            cfg.crypto.algorithms = vec!["plain".to_string()];
        }
        sim.add_node(&cfg, false);
        sim.add_node(&cfg, false);
        sim.add_node(&cfg, false);
        sim.record = true;
        let (at, ap, aq) = (sim.addr(T), sim.addr(P), sim.addr(Q));
        let mut cap = Captured::default();
        // T always has one healthy established peer Q (so that "no state change" also covers routes of others)
        sim.connect(Q, at);
        sim.settle();
        match state {
            RState::Unknown => {}
            RState::PendingInitiator => {
                sim.connect(T, ap); // ping stays in flight
            }
            RState::PendingResponder => {
                sim.connect(P, at);
                if let Some(d) = sim.inflight.pop_front() {
                    sim.deliver(d); // ping -> T, pong stays in flight
                }
            }
            RState::EstLinger | RState::EstNoLinger | RState::EstPlain => {
                sim.connect(T, ap);
                sim.settle();
                if state == RState::EstNoLinger {
                    sim.run(61);
                }
            }
            RState::EstResponder => {
                sim.connect(P, at);
                sim.settle();
            }
        }
        // genuine datagrams seen so far between T and P (either direction)
        for d in &sim.wire_log {
            let tp = (d.src == at && d.dst == ap) || (d.src == ap && d.dst == at);
            if !tp || d.data.is_empty() {
                continue;
            }
            if d.data[0] == 0xff {
                if cap.ping.is_empty() {
                    cap.ping = d.data.clone();
                } else if cap.pong.is_empty() {
                    cap.pong = d.data.clone();
                } else if cap.peng.is_empty() {
                    cap.peng = d.data.clone();
                }
            } else if cap.rotation.is_empty() {
                cap.rotation = d.data.clone(); // first sealed datagram after the handshake: rotation message 1
            } else if cap.node_info.is_empty() {
                cap.node_info = d.data.clone();
            }
        }
        // an exchange between two other trusted nodes, recorded by the outsider somewhere else
        {
            let mut twin: NetSim<Frame> = NetSim::new();
            twin.now = sim.now;
            vpncloud::util::MockTimeSource::set_time(sim.now);
            twin.add_node_at(&cfg, false, "[fd00::71]:3301".parse().unwrap());
            twin.add_node_at(&cfg, false, "[fd00::72]:3302".parse().unwrap());
            twin.record = true;
            let b = twin.addr(1);
            twin.connect(0, b);
            twin.settle();
            let hs: Vec<Vec<u8>> = twin.wire_log.iter().filter(|d| d.data.first() == Some(&0xff)).map(|d| d.data.clone()).collect();
            for (i, m) in hs.into_iter().take(3).enumerate() {
                cap.foreign[i] = m;
            }
        }
        let mut lab = Lab { sim, t: T, p: P, q: Q, state, cap, stranger: "[fd00::dead]:4444".parse().unwrap() };
        if lab.established() {
            // a data datagram P -> T
            let before = lab.sim.wire_log.len();
            lab.sim.put_payload(P, eth_frame([2, 0, 0, 0, 0, 1], [2, 0, 0, 0, 0, 2], None, b"lab-data-frame"));
            if let Some(d) = lab.sim.wire_log[before..].iter().find(|d| d.dst == at) {
                lab.cap.data = d.data.clone();
            }
            lab.sim.settle();
            lab.sim.take_iface(T);
            lab.sim.take_iface(Q);
        }
        // fall-backs so that every kind exists in every state: take them from a twin exchange between Q and T
        if lab.cap.ping.is_empty() || lab.cap.pong.is_empty() || lab.cap.peng.is_empty() {
            let aq_t: Vec<&Datagram> = lab.sim.wire_log.iter().filter(|d| (d.src == aq && d.dst == at) || (d.src == at && d.dst == aq)).collect();
            let hs: Vec<&&Datagram> = aq_t.iter().filter(|d| d.data.first() == Some(&0xff)).collect();
            if lab.cap.ping.is_empty() && !hs.is_empty() {
                lab.cap.ping = hs[0].data.clone();
            }
            if lab.cap.pong.is_empty() && hs.len() > 1 {
                lab.cap.pong = hs[1].data.clone();
            }
            if lab.cap.peng.is_empty() && hs.len() > 2 {
                lab.cap.peng = hs[2].data.clone();
            }
            let sealed: Vec<&&Datagram> = aq_t.iter().filter(|d| d.data.first() != Some(&0xff)).collect();
            if lab.cap.rotation.is_empty() && !sealed.is_empty() {
                lab.cap.rotation = sealed[0].data.clone();
            }
            if lab.cap.node_info.is_empty() && sealed.len() > 1 {
                lab.cap.node_info = sealed[1].data.clone();
            }
            if lab.cap.data.is_empty() {
                lab.cap.data = lab.cap.rotation.clone();
            }
        }
        lab
    }

    pub fn established(&self) -> bool {
        matches!(self.state, RState::EstLinger | RState::EstNoLinger | RState::EstResponder | RState::EstPlain)
    }

    /// address the forged datagrams claim to come from, per state
    pub fn natural_source(&self) -> SocketAddr {
        match self.state {
            RState::Unknown => self.stranger,
            _ => self.sim.addr(P),
        }
    }

    pub fn genuine(&self, kind: usize) -> &Vec<u8> {
        match kind % KINDS {
            0 => &self.cap.ping,
            1 => &self.cap.pong,
            2 => &self.cap.peng,
            3 => &self.cap.data,
            4 => &self.cap.node_info,
            5 => &self.cap.rotation,
            k => &self.cap.foreign[k - 6],
        }
    }

    /// everything that must not change when a forged datagram is dropped
    pub fn observe(&mut self) -> String {
        let inflight: Vec<u64> = self.sim.inflight.iter().map(|d| d.id).collect();
        format!("{} inflight={:?}", self.sim.snapshot(T), inflight)
    }

    /// Weaker closing check used when verbatim replays were part of the batch (they may legitimately disturb a
    /// handshake in progress): the node is alive and its healthy connection to Q still carries payload both ways.
    pub fn probe_q(&mut self) -> Result<(), String> {
        if !self.sim.panics.is_empty() {
            return Err(format!("node panicked: {:?}", self.sim.panics[0]));
        }
        self.sim.settle();
        // effects of a rejected datagram may only show after the replay-window thresholds moved (two ticks)
        self.sim.run(3);
        if !(self.sim.is_connected(T, Q) && self.sim.is_connected(Q, T)) {
            return Err("T lost its healthy peer Q".into());
        }
        for n in 0..3 {
            self.sim.take_iface(n);
        }
        let f1 = eth_frame([2, 0, 0, 0, 0, 3], [2, 0, 0, 0, 0, 1], None, b"probe T->Q");
        self.sim.put_payload(T, f1.clone());
        self.sim.settle();
        if !self.sim.take_iface(Q).contains(&f1) {
            return Err("probe frame from T did not reach its healthy peer Q".into());
        }
        let f2 = eth_frame([2, 0, 0, 0, 0, 1], [2, 0, 0, 0, 0, 3], None, b"probe Q->T");
        self.sim.put_payload(Q, f2.clone());
        self.sim.settle();
        if !self.sim.take_iface(T).contains(&f2) {
            return Err("probe frame from the healthy peer Q did not reach T".into());
        }
        if !self.sim.panics.is_empty() {
            return Err(format!("node panicked: {:?}", self.sim.panics[0]));
        }
        Ok(())
    }

    /// After the injections: the held genuine handshake completes, T and P (and Q) are connected and a probe
    /// frame crosses in both directions. Returns a description of what is broken, if anything.
    pub fn finish_and_probe(&mut self) -> Result<(), String> {
        if !self.sim.panics.is_empty() {
            return Err(format!("node panicked: {:?}", self.sim.panics[0]));
        }
        let ap = self.sim.addr(P);
        if self.state == RState::Unknown {
            self.sim.connect(T, ap);
        }
        self.sim.settle();
        for _ in 0..3 {
            if self.sim.is_connected(T, P) && self.sim.is_connected(P, T) {
                break;
            }
            self.sim.tick();
        }
        if !(self.sim.is_connected(T, P) && self.sim.is_connected(P, T)) {
            return Err("T and P do not get connected by the genuine handshake".into());
        }
        // effects of a rejected datagram may only show after the replay-window thresholds moved (two ticks)
        self.sim.run(3);
        if !(self.sim.is_connected(T, Q) && self.sim.is_connected(Q, T)) {
            return Err("T lost its healthy peer Q".into());
        }
        for n in 0..3 {
            self.sim.take_iface(n);
        }
        let f1 = eth_frame([2, 0, 0, 0, 0, 2], [2, 0, 0, 0, 0, 1], None, b"probe T->all");
        self.sim.put_payload(T, f1.clone());
        self.sim.settle();
        if self.sim.take_iface(P) != vec![f1.clone()] {
            return Err("probe frame from T did not reach P exactly once".into());
        }
        self.sim.take_iface(Q);
        let f2 = eth_frame([2, 0, 0, 0, 0, 1], [2, 0, 0, 0, 0, 2], None, b"probe P->T");
        self.sim.put_payload(P, f2.clone());
        self.sim.settle();
        if self.sim.take_iface(T) != vec![f2] {
            return Err("probe frame from P did not reach T exactly once".into());
        }
        if !self.sim.panics.is_empty() {
            return Err(format!("node panicked: {:?}", self.sim.panics[0]));
        }
        Ok(())
    }
}
