//! C14 - full mesh from any connected bootstrap; a node never peers with itself.
//! (1) all connected labelled graphs x edge orientations as connect instructions of real nodes
//! (NAT flag per node, sampled); (2) self-dial: a node's handshake datagrams are looped back to it
//! through every combination of differing addresses, alone and inside a mesh.

use crate::engine::{Ctx, Viol};
use crate::sim::{base_config, fam, set_sim_v4, NetSim};
use proptest::prelude::*;
use serde::{Deserialize, Serialize};
use serde_json::{json, Value};
use std::net::SocketAddr;
use vpncloud::payload::Frame;
use vpncloud::types::Mode;

#[derive(Clone, Debug, Serialize, Deserialize)]
pub struct GraphCase {
    pub nodes: u8,
    /// per unordered pair (i<j, lexicographic): 0 none, 1 i dials j, 2 j dials i, 3 both
    pub edges: Vec<u8>,
    /// bit i: node i is behind an address-filtering NAT
    pub nat: u8,
    /// all nodes enable only the unencrypted transport
    #[serde(default)]
    pub plain: bool,
    /// bit i: node i advertises seven addresses (same family as its socket address) that nobody can reach, e.g.
    /// addresses of other interfaces; an announcement carries at most seven addresses per family and node
    #[serde(default)]
    pub advertise: u8,
    /// the simulated network is an IPv4 one (IPv4-mapped socket addresses)
    #[serde(default)]
    pub v4: bool,
}

fn pairs(n: usize) -> Vec<(usize, usize)> {
    let mut v = vec![];
    for i in 0..n {
        for j in (i + 1)..n {
            v.push((i, j));
        }
    }
    v
}

/// connectivity over edges that are usable given the NAT flags (soundness rule: an edge counts only if its
/// dialled end is not behind a NAT, or both ends dial)
fn usable_connected(n: usize, edges: &[u8], nat: u8) -> bool {
    let ps = pairs(n);
    let mut adj = vec![vec![]; n];
    for (k, (i, j)) in ps.iter().enumerate() {
        let e = edges.get(k).copied().unwrap_or(0) & 3;
        let nat_i = nat & (1 << i) != 0;
        let nat_j = nat & (1 << j) != 0;
        let usable = match e {
            0 => false,
            1 => !nat_j,
            2 => !nat_i,
            _ => true,
        };
        if usable {
            adj[*i].push(*j);
            adj[*j].push(*i);
        }
    }
    let mut seen = vec![false; n];
    let mut stack = vec![0];
    seen[0] = true;
    while let Some(x) = stack.pop() {
        for y in &adj[x] {
            if !seen[*y] {
                seen[*y] = true;
                stack.push(*y);
            }
        }
    }
    seen.iter().all(|s| *s)
}

/// more than 3000 deliveries within one simulated second (or an unbounded cascade) is a datagram storm
fn storm_report(sim: &NetSim<Frame>, delivered_before: u64) -> Option<String> {
    let n = sim.delivered - delivered_before;
    if sim.storm || n > 3000 {
        let last: Vec<String> = sim
            .wire_log
            .iter()
            .rev()
            .take(12)
            .map(|d| format!("{}->{} {}B first={:?} stage={:?}", d.src, d.dst, d.data.len(), d.data.first(), d.data.get(12)))
            .collect();
        return Some(format!("{} datagrams delivered within one simulated second (unbounded: {}); most recent first: {:?}", n, sim.storm, last));
    }
    None
}

fn self_peer_violation(sim: &NetSim<Frame>) -> Option<String> {
    for (i, n) in sim.nodes.iter().enumerate() {
        if n.dead {
            continue;
        }
        let id = n.node.verif_node_id();
        let own = n.node.verif_own_addresses();
        for p in n.node.verif_peers() {
            if p.node_id == id {
                return Some(format!("node {} lists a peer at {} that carries its own node id", i, p.addr));
            }
            if own.contains(&p.addr) {
                return Some(format!("node {} lists one of its own addresses ({}) as a peer", i, p.addr));
            }
        }
    }
    None
}

pub fn graph_case(ctx: &Ctx, c: &GraphCase) -> Vec<Viol> {
    let prev = set_sim_v4(c.v4);
    let r = graph_case_inner(ctx, c);
    set_sim_v4(prev);
    r
}

fn graph_case_inner(ctx: &Ctx, c: &GraphCase) -> Vec<Viol> {
    ctx.eval();
    let cj = || json!({"kind": "graph", "case": c});
    let mut out = vec![];
    let n = c.nodes.clamp(2, 8) as usize;
    if !usable_connected(n, &c.edges, c.nat) {
        ctx.class("graph:not-connected-over-usable-edges(skipped)");
        return out;
    }
    let mut sim: NetSim<Frame> = NetSim::new();
    for i in 0..n {
        let mut cfg = base_config();
        cfg.auto_claim = false;
        cfg.mode = Mode::Switch;
        if c.plain {
            cfg.crypto.algorithms = vec!["plain".to_string()];
        }
        if c.advertise & (1 << i) != 0 {
            cfg.advertise_addresses = (0..7).map(|k| if c.v4 { format!("10.99.{}.{}:{}", i + 1, k + 1, 3210 + i) } else { format!("[fd00:99:{:x}::{:x}]:{}", i + 1, k + 1, 3210 + i) }).collect();
        }
        sim.add_node(&cfg, c.nat & (1 << i) != 0);
    }
    for (k, (i, j)) in pairs(n).iter().enumerate() {
        let e = c.edges.get(k).copied().unwrap_or(0) & 3;
        if e & 1 != 0 {
            let a = sim.addr(*j);
            sim.connect(*i, a);
        }
        if e & 2 != 0 {
            let a = sim.addr(*i);
            sim.connect(*j, a);
        }
    }
    sim.settle();
    sim.record = true;
    let bound = n as i64 * 90 + 130;
    let mut meshed_at = None;
    for s in 0..bound {
        if sim.all_connected() {
            meshed_at = Some(s);
            break;
        }
        let d0 = sim.delivered;
        sim.tick();
        if let Some(why) = storm_report(&sim, d0) {
            ctx.class("inconclusive:handshake-repeat-loop(storm)");
            ctx.sample("storm", || json!(why));
            return out;
        }
        if let Some(why) = self_peer_violation(&sim) {
            out.push(Viol::new("node-peers-with-itself", format!("t+{}: {}", s, why), cj()));
            return out;
        }
        if let Some((i, p, ctxt)) = sim.panics.first() {
            out.push(Viol::new(format!("node-{}", p.sig()), format!("node {} panicked: {} ({})", i, p.msg, ctxt), cj()));
            return out;
        }
    }
    match meshed_at {
        None => {
            let missing: Vec<(usize, usize)> = (0..n).flat_map(|i| (0..n).map(move |j| (i, j))).filter(|(i, j)| i != j && !sim.is_connected(*i, *j)).collect();
            out.push(Viol::new(
                "no-full-mesh-within-bound",
                format!("{} nodes, connect graph {:?}, NAT mask {:b}: after {} s these directed pairs are not connected: {:?}", n, c.edges, c.nat, bound, missing),
                cj(),
            ));
        }
        Some(s) => {
            ctx.class(&format!("graph:meshed-within-{}s", ((s / 90) + 1) * 90));
            // stay meshed and never self-peer for another announcement interval
            for _ in 0..100 {
                let d0 = sim.delivered;
                sim.tick();
                if let Some(why) = storm_report(&sim, d0) {
                    ctx.class("inconclusive:handshake-repeat-loop(storm)");
                    ctx.sample("storm", || json!(why));
                    return out;
                }
                if let Some(why) = self_peer_violation(&sim) {
                    out.push(Viol::new("node-peers-with-itself", why, cj()));
                    return out;
                }
            }
            if !sim.all_connected() {
                out.push(Viol::new("mesh-falls-apart", "fully meshed, but 100 s later a pair is disconnected".to_string(), cj()));
            }
        }
    }
    let nedges = c.edges.iter().filter(|e| **e & 3 != 0).count();
    if n >= 3 && nedges < n * (n - 1) / 2 {
        ctx.nontrivial(&(c.nodes, &c.edges, c.nat, c.advertise));
        if c.advertise != 0 {
            ctx.class(if c.nat != 0 { "graph:with-unreachable-advertised-addresses-and-nat" } else { "graph:with-unreachable-advertised-addresses" });
        }
    }
    out
}

// ---------------- meshes larger than the 20 entries one announcement carries ----------------

#[derive(Clone, Debug, Serialize, Deserialize)]
pub struct BigMesh {
    pub nodes: u8,
    /// 0 star (everybody dials node 0), 1 star (node 0 dials everybody), 2 path, 3 random tree from `seed`
    pub shape: u8,
    pub seed: u32,
    #[serde(default)]
    pub plain: bool,
}

/// An announcement lists at most 20 peers (a random choice of 20 when a node has more), so with more than 21 nodes
/// no single message describes the mesh; the property still demands the full mesh within a bounded number of
/// intervals. Bound used: n intervals + 130 s, as for the small graphs (each announcement misses a given peer with
/// probability <= (k-20)/k, so n rounds leave a pair unconnected with probability far below 1e-12 for n <= 30).
pub fn bigmesh_case(ctx: &Ctx, c: &BigMesh) -> Vec<Viol> {
    ctx.eval();
    let cj = || json!({"kind": "bigmesh", "case": c});
    let mut out = vec![];
    let n = c.nodes.clamp(3, 40) as usize;
    let mut sim: NetSim<Frame> = NetSim::new();
    sim.storm_limit = 400_000;
    for _ in 0..n {
        let mut cfg = base_config();
        cfg.auto_claim = false;
        cfg.mode = Mode::Switch;
        if c.plain {
            cfg.crypto.algorithms = vec!["plain".to_string()];
        }
        sim.add_node(&cfg, false);
    }
    let mut x = c.seed as u64 | 1;
    let mut next = |m: usize| {
        x = x.wrapping_mul(6364136223846793005).wrapping_add(1442695040888963407);
        ((x >> 33) as usize) % m
    };
    for i in 1..n {
        let (from, to) = match c.shape & 3 {
            0 => (i, 0),
            1 => (0, i),
            2 => (i, i - 1),
            _ => {
                let parent = next(i);
                if next(2) == 0 { (i, parent) } else { (parent, i) }
            }
        };
        let a = sim.addr(to);
        sim.connect(from, a);
    }
    sim.settle();
    let bound = n as i64 * 90 + 130;
    let mut meshed_at = None;
    for s in 0..bound {
        if sim.all_connected() {
            meshed_at = Some(s);
            break;
        }
        sim.tick();
        if sim.storm {
            ctx.class("inconclusive:handshake-repeat-loop(storm)");
            return out;
        }
        if let Some(why) = self_peer_violation(&sim) {
            out.push(Viol::new("node-peers-with-itself", format!("t+{}: {}", s, why), cj()));
            return out;
        }
        if let Some((i, p, ctxt)) = sim.panics.first() {
            out.push(Viol::new(format!("node-{}", p.sig()), format!("node {} panicked: {} ({})", i, p.msg, ctxt), cj()));
            return out;
        }
    }
    match meshed_at {
        None => {
            let missing: Vec<(usize, usize)> = (0..n).flat_map(|i| (0..n).map(move |j| (i, j))).filter(|(i, j)| i != j && !sim.is_connected(*i, *j)).take(12).collect();
            out.push(Viol::new(
                "no-full-mesh-within-bound",
                format!("{} nodes (more than one announcement can list), shape {}: after {} s these directed pairs (first 12) are not connected: {:?}", n, c.shape, bound, missing),
                cj(),
            ));
        }
        Some(s) => {
            ctx.class(&format!("bigmesh:{}-nodes-meshed-within-{}s", if n > 21 { ">21" } else { "<=21" }, ((s / 90) + 1) * 90));
            for _ in 0..200 {
                sim.tick();
                if let Some(why) = self_peer_violation(&sim) {
                    out.push(Viol::new("node-peers-with-itself", why, cj()));
                    return out;
                }
            }
            if !sim.all_connected() && !sim.storm {
                out.push(Viol::new("mesh-falls-apart", format!("{} nodes fully meshed, but 200 s later a pair is disconnected", n), cj()));
            }
            ctx.nontrivial(&("bigmesh", c.nodes, c.shape, c.seed, c.plain));
        }
    }
    out
}

// ---------------- late joiner behind a NAT, long peer-exchange intervals ----------------

#[derive(Clone, Debug, Serialize, Deserialize)]
pub struct LateJoin {
    /// peer timeout of every node (the announcement interval is timeout / 2 - 60: 300 -> 90 s, 600 -> 240 s, 1200 -> 540 s)
    pub peer_timeout: u16,
    /// second at which the last node dials the hub
    pub late: u16,
    /// bit i: node i (1 = first leaf, 2 = late leaf) is behind an address-filtering NAT
    pub nat: u8,
    pub leaves: u8,
}

/// A hub that everybody dials; the last leaf joins `late` seconds after the others. It learns the other leaves from the
/// hub's handshake payload and dials them alone (NATed leaves do not hear it); the others are told about it at the hub's
/// next announcement - with a long interval only after the late leaf's first dial has given up (120 retries). The mesh
/// must still complete: every announcement makes both sides dial again.
pub fn latejoin_case(ctx: &Ctx, c: &LateJoin) -> Vec<Viol> {
    ctx.eval();
    let cj = || json!({"kind": "latejoin", "case": c});
    let mut out = vec![];
    let n = 1 + c.leaves.clamp(2, 4) as usize;
    let interval = (c.peer_timeout as i64 / 2 - 60).max(1);
    let mut sim: NetSim<Frame> = NetSim::new();
    for i in 0..n {
        let mut cfg = base_config();
        cfg.auto_claim = false;
        cfg.mode = Mode::Switch;
        cfg.peer_timeout = c.peer_timeout as u32;
        sim.add_node(&cfg, i > 0 && c.nat & (1 << (i.min(2))) != 0);
    }
    let hub = sim.addr(0);
    for i in 1..n - 1 {
        sim.connect(i, hub);
    }
    sim.settle();
    sim.run(c.late as i64);
    sim.connect(n - 1, hub);
    sim.settle();
    let bound = n as i64 * interval + 130;
    let mut meshed_at = None;
    for s in 0..bound {
        if sim.all_connected() {
            meshed_at = Some(s);
            break;
        }
        sim.tick();
        if sim.storm {
            ctx.class("inconclusive:handshake-repeat-loop(storm)");
            return out;
        }
        if let Some(why) = self_peer_violation(&sim) {
            out.push(Viol::new("node-peers-with-itself", format!("t+{}: {}", s, why), cj()));
            return out;
        }
        if let Some((i, p, ctxt)) = sim.panics.first() {
            out.push(Viol::new(format!("node-{}", p.sig()), format!("node {} panicked: {} ({})", i, p.msg, ctxt), cj()));
            return out;
        }
    }
    match meshed_at {
        None => {
            let missing: Vec<(usize, usize)> = (0..n).flat_map(|i| (0..n).map(move |j| (i, j))).filter(|(i, j)| i != j && !sim.is_connected(*i, *j)).collect();
            out.push(Viol::new(
                "no-full-mesh-within-bound",
                format!("hub + {} leaves (NAT mask {:b}), announcement interval {} s, last leaf joined at {} s: {} s later these directed pairs are not connected: {:?}", n - 1, c.nat, interval, c.late, bound, missing),
                cj(),
            ));
        }
        Some(s) => {
            ctx.class(&format!("latejoin:meshed-within-{}-intervals", s / interval + 1));
            ctx.nontrivial(&("latejoin", c.peer_timeout, c.late, c.nat, c.leaves));
        }
    }
    out
}

// ---------------- self dial ----------------

#[derive(Clone, Debug, Serialize, Deserialize)]
pub struct SelfDial {
    /// 0: node alone, 1: inside a 3-node mesh
    pub in_mesh: bool,
    /// address dialled: 0 forwarded address F (unknown to the node), 1 advertised address, 2 own socket address
    pub dialled: u8,
    /// source address under which the datagrams come back: 0 = F, 1 = a foreign address G, 2 = own socket address,
    /// 3 = advertised, 4 = a second forwarded address that is dialled too (crossed loop of two own handshakes)
    pub comes_back_from: u8,
    /// replies sent to the come-back address are looped as well (full hair-pin) or dropped
    pub loop_replies: bool,
    pub seconds: u16,
    /// IPv4 network (IPv4-mapped addresses everywhere)
    #[serde(default)]
    pub v4: bool,
}

pub fn selfdial_case(ctx: &Ctx, c: &SelfDial) -> Vec<Viol> {
    let prev = set_sim_v4(c.v4);
    let r = selfdial_case_inner(ctx, c);
    set_sim_v4(prev);
    r
}

fn selfdial_case_inner(ctx: &Ctx, c: &SelfDial) -> Vec<Viol> {
    ctx.eval();
    let cj = || json!({"kind": "selfdial", "case": c});
    let mut out = vec![];
    let f: SocketAddr = fam("[fd00::f0]:5000".parse().unwrap());
    let g: SocketAddr = fam("[fd00::99]:5999".parse().unwrap());
    let adv: SocketAddr = fam("[fd00::ad]:5100".parse().unwrap());
    let mut sim: NetSim<Frame> = NetSim::new();
    let nn = if c.in_mesh { 3 } else { 1 };
    for i in 0..nn {
        let mut cfg = base_config();
        cfg.auto_claim = false;
        cfg.mode = Mode::Switch;
        if i == 0 {
            cfg.advertise_addresses = vec![adv.to_string()];
        }
        sim.add_node(&cfg, false);
    }
    let own = sim.addr(0);
    if c.in_mesh {
        let (a1, a2) = (sim.addr(1), sim.addr(2));
        sim.connect(0, a1);
        sim.connect(1, a2);
        sim.settle();
        sim.run(100);
    }
    let dialled = match c.dialled % 3 {
        0 => f,
        1 => adv,
        _ => own,
    };
    let f2: SocketAddr = fam("[fd00::f2]:5002".parse().unwrap());
    let crossed = c.comes_back_from % 5 == 4;
    let back = match c.comes_back_from % 5 {
        0 => f,
        1 => g,
        2 => own,
        3 => adv,
        // a second forwarded address that the node dials as well: what it sends to the first comes back from the
        // second and vice versa (two of its own handshakes meet each other)
        _ => f2,
    };
    let loop_replies = c.loop_replies;
    // hair-pin: what node 0 sends to `dialled` arrives at node 0 from `back` (and optionally vice versa)
    sim.rewrite = Some(Box::new(move |src, dst| {
        if src == own && dst == dialled {
            (back, own)
        } else if (loop_replies || crossed) && src == own && dst == back && back != own {
            (dialled, own)
        } else {
            (src, dst)
        }
    }));
    sim.connect(0, dialled);
    if crossed {
        sim.connect(0, f2);
    }
    sim.settle();
    let mut dialled_after_adoption = false;
    sim.record = true;
    for s in 0..(c.seconds % 400 + 5) {
        let d0 = sim.delivered;
        sim.tick();
        if let Some(why) = storm_report(&sim, d0) {
            out.push(Viol::new("self-dial-datagram-storm", format!("self-dial (dialled {}, datagrams come back from {}) t+{}: {}", dialled, back, s, why), cj()));
            return out;
        }
        if let Some(why) = self_peer_violation(&sim) {
            out.push(Viol::new(
                "node-peers-with-itself",
                format!("self-dial (dialled {}, datagrams come back from {}, replies looped: {}) t+{}: {}", dialled, back, c.loop_replies, s, why),
                cj(),
            ));
            return out;
        }
        if let Some((i, p, ctxt)) = sim.panics.first() {
            out.push(Viol::new(format!("node-{}", p.sig()), format!("node {} panicked: {} ({})", i, p.msg, ctxt), cj()));
            return out;
        }
        // own / advertised addresses are never dialled
        let pend = sim.nodes[0].node.verif_pending();
        if pend.contains(&own) && back != own || pend.contains(&adv) && dialled == adv {
            dialled_after_adoption = true;
        }
    }
    if dialled_after_adoption {
        out.push(Viol::new("own-address-dialled", format!("a handshake towards one of the node's own addresses is pending (dialled {}, back {})", dialled, back), cj()));
    }
    if c.in_mesh && !sim.all_connected() {
        out.push(Viol::new("mesh-broken-by-self-dial", "the 3-node mesh is no longer fully connected".to_string(), cj()));
    }
    ctx.nontrivial(&format!("{:?}", c));
    out
}

/// a node whose datagrams reach the others from a translated address F: the others report F under its identity,
/// the node must adopt F as its own address and never dial it
pub fn adoption_case(ctx: &Ctx, seconds: u16, v4: bool) -> Vec<Viol> {
    let prev = set_sim_v4(v4);
    let r = adoption_case_inner(ctx, seconds, v4);
    set_sim_v4(prev);
    r
}

fn adoption_case_inner(ctx: &Ctx, seconds: u16, v4: bool) -> Vec<Viol> {
    ctx.eval();
    let case = json!({"kind": "adoption", "seconds": seconds, "v4": v4});
    let mut out = vec![];
    let f: SocketAddr = fam("[fd00::f0]:5000".parse().unwrap());
    let mut sim: NetSim<Frame> = NetSim::new();
    for _ in 0..3 {
        let mut cfg = base_config();
        cfg.auto_claim = false;
        cfg.mode = Mode::Switch;
        sim.add_node(&cfg, false);
    }
    let own = sim.addr(0);
    // address translation in front of node 0: its datagrams appear from F, datagrams to F reach it, and its
    // private socket address is not routable from outside
    let nowhere: SocketAddr = fam("[fd00::dead]:1".parse().unwrap());
    sim.rewrite = Some(Box::new(move |src, dst| {
        let s = if src == own { f } else { src };
        let d = if dst == f {
            own
        } else if dst == own && src != own {
            nowhere
        } else {
            dst
        };
        (s, d)
    }));
    let (a1, a2) = (sim.addr(1), sim.addr(2));
    sim.connect(0, a1);
    sim.connect(1, a2);
    sim.settle();
    let mut adopted = false;
    sim.record = true;
    for s in 0..(seconds % 700 + 200) {
        let d0 = sim.delivered;
        sim.tick();
        if let Some(why) = storm_report(&sim, d0) {
            // observation, not a verdict: see DESIGN.md (handshake retransmission loop)
            ctx.class("inconclusive:handshake-repeat-loop(storm)");
            ctx.sample("storm", || json!(why));
            return out;
        }
        if let Some(why) = self_peer_violation(&sim) {
            out.push(Viol::new("node-peers-with-itself", format!("behind address translation, t+{}: {}", s, why), case.clone()));
            return out;
        }
        if sim.nodes[0].node.verif_own_addresses().contains(&f) {
            adopted = true;
        }
        if sim.nodes[0].node.verif_pending().contains(&f) {
            out.push(Viol::new("own-address-dialled", format!("t+{}: node 0 dials {} which the others report under its own identity", s, f), case.clone()));
            return out;
        }
        if let Some((i, p, ctxt)) = sim.panics.first() {
            out.push(Viol::new(format!("node-{}", p.sig()), format!("node {} panicked: {} ({})", i, p.msg, ctxt), case.clone()));
            return out;
        }
    }
    if !adopted {
        out.push(Viol::new("reported-address-not-adopted", format!("node 0 never adopted {} although its peers list it under node 0's identity", f), case.clone()));
    }
    // the mesh (as seen through the translation) must be complete: 1 and 2 know node 0 under F
    let p1: Vec<SocketAddr> = sim.nodes[1].node.verif_peers().iter().map(|p| p.addr).collect();
    let p2: Vec<SocketAddr> = sim.nodes[2].node.verif_peers().iter().map(|p| p.addr).collect();
    if !p1.contains(&f) || !p2.contains(&f) || !sim.is_connected(0, 1) || !sim.is_connected(0, 2) {
        out.push(Viol::new("no-full-mesh-within-bound", format!("translated node: peers of 1 {:?}, peers of 2 {:?}", p1, p2), case));
    }
    ctx.nontrivial(&("adoption", seconds, v4));
    out
}

pub fn run(ctx: &Ctx) {
    ctx.rule(
        "(1) connect instructions = connected labelled graph on n real nodes x orientation per edge (i dials j, j \
         dials i, both): all graphs on 2-4 nodes exhaustively without NAT, sampled graphs on up to 8 nodes and NAT \
         masks (a case is run only if the graph is connected over usable edges: dialled end not NATed or both ends \
         dial); oracle: all pairs mutually connected within n x 90 s + 130 s, no node ever lists a peer with its own \
         node id or own address, the mesh stays complete. (2) self dial: node 0 dials {forwarded, advertised, own} \
         address and its datagrams come back from {forwarded, foreign, own, advertised} address, replies looped or \
         not, alone and inside a 3-node mesh - all combinations; plus a node behind address translation whose peers \
         report the translated address under its identity (must be adopted, never dialled). Non-trivial = graph with \
         >= 3 nodes that is not complete / every self-dial case; distinct = whole case.",
    );
    // (1) exhaustive graphs on 2..=4 nodes
    let maxn: usize = 4;
    let mut cases: Vec<GraphCase> = vec![];
    for n in 2..=maxn {
        let np = n * (n - 1) / 2;
        let total = 4u32.pow(np as u32);
        for code in 0..total {
            let edges: Vec<u8> = (0..np).map(|k| ((code >> (2 * k)) & 3) as u8).collect();
            if usable_connected(n, &edges, 0) {
                cases.push(GraphCase { nodes: n as u8, edges: edges.clone(), nat: 0, plain: false, advertise: 0, v4: false });
                if n == 3 || code % 5 == 0 {
                    cases.push(GraphCase { nodes: n as u8, edges, nat: 0, plain: true, advertise: 0, v4: n == 3 });
                }
            }
        }
    }
    // 3-node graphs again with nodes that advertise seven unreachable addresses, with and without a NATed node
    let mut adv_cases = 0u64;
    for code in 0..64u32 {
        let edges: Vec<u8> = (0..3).map(|k| ((code >> (2 * k)) & 3) as u8).collect();
        for advertise in [0b001u8, 0b010, 0b100, 0b111] {
            for nat in [0u8, 0b001, 0b010, 0b100] {
                if usable_connected(3, &edges, nat) {
                    cases.push(GraphCase { nodes: 3, edges: edges.clone(), nat, plain: false, advertise, v4: (code + advertise as u32 + nat as u32) % 2 == 1 });
                    adv_cases += 1;
                }
            }
        }
    }
    let total = cases.len() as u64 - adv_cases;
    ctx.par_items(&cases, |_, c| {
        let v = graph_case(ctx, c);
        ctx.report(v);
    });
    ctx.subspace("all connected 3-node graphs x orientations x {one node, all nodes} advertising seven unreachable addresses x {no NAT, one NATed node}", adv_cases, true);
    ctx.subspace("all connected labelled graphs on 2..=4 nodes x every orientation per edge (no NAT), encrypted; all 3-node and every 5th 4-node case also with the unencrypted transport", total, true);
    ctx.sample("graph", || serde_json::to_value(&cases[cases.len() / 2]).unwrap());
    // sampled larger graphs and NAT masks
    let n: u32 = ctx.tier.pick(1_200, 12_000);
    ctx.proptest(
        "pt-graph",
        n,
        || (2u8..=8, proptest::collection::vec(prop_oneof![3 => Just(0u8), 1 => Just(1u8), 1 => Just(2u8), 1 => Just(3u8)], 28), any::<u8>(), any::<bool>(), prop_oneof![2 => Just(0u8), 1 => any::<u8>()]),
        |(nodes, edges, nat, use_nat, advertise)| {
            let n = *nodes as usize;
            let mut e = edges[..n * (n - 1) / 2].to_vec();
            // make it connected: a spanning path with random orientation from the leftover entries
            for i in 0..n - 1 {
                let k = pairs(n).iter().position(|p| *p == (i, i + 1)).unwrap();
                if e[k] == 0 {
                    e[k] = 1 + edges[27 - i] % 3;
                }
            }
            let c = GraphCase { nodes: *nodes, edges: e, nat: if *use_nat { *nat } else { 0 }, plain: edges[20] == 3, advertise: *advertise, v4: edges[21] & 1 == 1 };
            graph_case(ctx, &c)
        },
    );
    ctx.subspace("proptest: graphs on 2..=8 nodes, random orientations, NAT masks", n as u64, false);

    // (1b) meshes with more nodes than one announcement lists (20)
    let mut big = vec![];
    for (k, n) in ctx.tier.pick(vec![23u8, 26], vec![21u8, 22, 23, 24, 26, 30]).into_iter().enumerate() {
        for shape in 0..4u8 {
            if shape == 2 && n > 23 && ctx.tier.pick(true, false) {
                continue;
            }
            big.push(BigMesh { nodes: n, shape, seed: ctx.seed as u32 ^ (k as u32 * 7919 + shape as u32), plain: shape == 1 && k % 2 == 1 });
        }
    }
    let nbig = big.len() as u64;
    ctx.par_items(&big, |_, c| {
        let v = bigmesh_case(ctx, c);
        ctx.report(v);
    });
    ctx.subspace("meshes of 21..30 nodes (an announcement lists at most 20 peers): star dialled inwards / outwards, path, random tree", nbig, false);
    ctx.sample("bigmesh", || serde_json::to_value(&big[0]).unwrap());

    // (1c) late joiners behind NATs with long announcement intervals
    let mut lj = vec![];
    for peer_timeout in [300u16, 600, 1200] {
        for late in [0u16, 30, 100, 200] {
            for nat in [0u8, 0b010, 0b100, 0b110] {
                for leaves in [2u8, 3] {
                    lj.push(LateJoin { peer_timeout, late, nat, leaves });
                }
            }
        }
    }
    let nlj = lj.len() as u64;
    ctx.par_items(&lj, |_, c| {
        let v = latejoin_case(ctx, c);
        ctx.report(v);
    });
    ctx.sample("latejoin", || serde_json::to_value(&lj[40]).unwrap());
    ctx.subspace("hub + 2-3 leaves, last leaf joins 0 / 30 / 100 / 200 s late, leaves behind NATs, announcement interval 90 / 240 / 540 s", nlj, true);

    // (2) self dial: all combinations
    let mut sd = vec![];
    for in_mesh in [false, true] {
        for dialled in 0..3u8 {
            for back in 0..5u8 {
                for loop_replies in [false, true] {
                    sd.push(SelfDial { in_mesh, dialled, comes_back_from: back, loop_replies, seconds: 130, v4: false });
                    sd.push(SelfDial { in_mesh, dialled, comes_back_from: back, loop_replies, seconds: 130, v4: true });
                }
            }
        }
    }
    let nsd = sd.len() as u64;
    ctx.par_items(&sd, |_, c| {
        let v = selfdial_case(ctx, c);
        ctx.report(v);
    });
    ctx.subspace("self dial: {alone, in mesh} x dialled {forwarded, advertised, own} x comes back from {forwarded, foreign, own, advertised, second dialled address (crossed)} x replies looped or not x {IPv6, IPv4} network", nsd, true);
    ctx.sample("self-dial", || serde_json::to_value(&sd[3]).unwrap());
    for s in [0u16, 150, 450] {
        for v4 in [false, true] {
            let v = adoption_case(ctx, s, v4);
            ctx.report(v);
        }
    }
    ctx.subspace("node behind address translation: reported address adopted and never dialled (3 durations, spanning the own-address reset) x {IPv6, IPv4} network", 6, true);
}

pub fn replay(ctx: &Ctx, case: &Value) {
    let v = match case["kind"].as_str() {
        Some("graph") => serde_json::from_value::<GraphCase>(case["case"].clone()).map(|c| graph_case(ctx, &c)).unwrap_or_default(),
        Some("selfdial") => serde_json::from_value::<SelfDial>(case["case"].clone()).map(|c| selfdial_case(ctx, &c)).unwrap_or_default(),
        Some("latejoin") => serde_json::from_value::<LateJoin>(case["case"].clone()).map(|c| latejoin_case(ctx, &c)).unwrap_or_default(),
        Some("bigmesh") => serde_json::from_value::<BigMesh>(case["case"].clone()).map(|c| bigmesh_case(ctx, &c)).unwrap_or_default(),
        Some("adoption") => adoption_case(ctx, case["seconds"].as_u64().unwrap_or(0) as u16, case["v4"].as_bool().unwrap_or(false)),
        _ => vec![],
    };
    ctx.report(v);
}
