//! C20 - configuration sources combine as documented.
//! Oracle: ConfigRef (reference model written from the documentation: argv > file > default,
//! lists accumulate, switches only set), round trip through the file form, netmask formula.

use crate::engine::{pick_idx, Ctx, Viol};
use crate::sim::catch;
use proptest::prelude::*;
use serde::{Deserialize, Serialize};
use serde_json::{json, Map, Value};
use std::collections::BTreeMap;
use structopt::StructOpt;
use vpncloud::config::{Args, Config, ConfigFile};

#[derive(Clone, Copy, Debug, PartialEq)]
enum Kind {
    /// plain string setting, default given
    Str(&'static str),
    /// optional string, default None
    OptStr,
    Num(u32),
    OptNum,
    Enum(&'static [&'static str], &'static str),
    /// boolean: file sets true/false, command-line switch can only set `cli_value`
    Switch { default: bool, cli_value: bool },
    /// command-line only switch
    CliSwitch,
    List,
    /// algorithms: list-valued but replacing (argv > file > default empty)
    Algos,
    /// per-event hooks: map, accumulating
    Hooks,
}

struct Opt {
    key: &'static str,
    section: Option<&'static str>,
    yaml: &'static str,
    cli: &'static str,
    kind: Kind,
}

const MODES: &[&str] = &["normal", "router", "switch", "hub"];
const TYPES: &[&str] = &["tun", "tap"];
const ALGOS: &[&str] = &["plain", "aes128", "aes256", "chacha20"];

const OPTS: &[Opt] = &[
    Opt { key: "device_type", section: Some("device"), yaml: "type", cli: "--type", kind: Kind::Enum(TYPES, "tun") },
    Opt { key: "device_name", section: Some("device"), yaml: "name", cli: "--device", kind: Kind::Str("vpncloud%d") },
    Opt { key: "device_path", section: Some("device"), yaml: "path", cli: "--device-path", kind: Kind::OptStr },
    Opt { key: "fix_rp_filter", section: Some("device"), yaml: "fix-rp-filter", cli: "--fix-rp-filter", kind: Kind::Switch { default: false, cli_value: true } },
    Opt { key: "ip", section: None, yaml: "ip", cli: "--ip", kind: Kind::OptStr },
    Opt { key: "advertise_addresses", section: None, yaml: "advertise-addresses", cli: "--advertise_addresses", kind: Kind::List },
    Opt { key: "ifup", section: None, yaml: "ifup", cli: "--ifup", kind: Kind::OptStr },
    Opt { key: "ifdown", section: None, yaml: "ifdown", cli: "--ifdown", kind: Kind::OptStr },
    Opt { key: "listen", section: None, yaml: "listen", cli: "--listen", kind: Kind::Str("3210") },
    Opt { key: "peers", section: None, yaml: "peers", cli: "--peer", kind: Kind::List },
    Opt { key: "peer_timeout", section: None, yaml: "peer-timeout", cli: "--peer-timeout", kind: Kind::Num(300) },
    Opt { key: "keepalive", section: None, yaml: "keepalive", cli: "--keepalive", kind: Kind::OptNum },
    Opt { key: "beacon_store", section: Some("beacon"), yaml: "store", cli: "--beacon-store", kind: Kind::OptStr },
    Opt { key: "beacon_load", section: Some("beacon"), yaml: "load", cli: "--beacon-load", kind: Kind::OptStr },
    Opt { key: "beacon_interval", section: Some("beacon"), yaml: "interval", cli: "--beacon-interval", kind: Kind::Num(3600) },
    Opt { key: "beacon_password", section: Some("beacon"), yaml: "password", cli: "--beacon-password", kind: Kind::OptStr },
    Opt { key: "mode", section: None, yaml: "mode", cli: "--mode", kind: Kind::Enum(MODES, "normal") },
    Opt { key: "switch_timeout", section: None, yaml: "switch-timeout", cli: "--switch-timeout", kind: Kind::Num(300) },
    Opt { key: "claims", section: None, yaml: "claims", cli: "--claim", kind: Kind::List },
    Opt { key: "auto_claim", section: None, yaml: "auto-claim", cli: "--no-auto-claim", kind: Kind::Switch { default: true, cli_value: false } },
    Opt { key: "port_forwarding", section: None, yaml: "port-forwarding", cli: "--no-port-forwarding", kind: Kind::Switch { default: true, cli_value: false } },
    Opt { key: "daemonize", section: None, yaml: "", cli: "--daemon", kind: Kind::CliSwitch },
    Opt { key: "pid_file", section: None, yaml: "pid-file", cli: "--pid-file", kind: Kind::OptStr },
    Opt { key: "stats_file", section: None, yaml: "stats-file", cli: "--stats-file", kind: Kind::OptStr },
    Opt { key: "statsd_server", section: Some("statsd"), yaml: "server", cli: "--statsd-server", kind: Kind::OptStr },
    Opt { key: "statsd_prefix", section: Some("statsd"), yaml: "prefix", cli: "--statsd-prefix", kind: Kind::OptStr },
    Opt { key: "user", section: None, yaml: "user", cli: "--user", kind: Kind::OptStr },
    Opt { key: "group", section: None, yaml: "group", cli: "--group", kind: Kind::OptStr },
    Opt { key: "password", section: Some("crypto"), yaml: "password", cli: "--password", kind: Kind::OptStr },
    Opt { key: "private_key", section: Some("crypto"), yaml: "private-key", cli: "--private-key", kind: Kind::OptStr },
    Opt { key: "public_key", section: Some("crypto"), yaml: "public-key", cli: "--public-key", kind: Kind::OptStr },
    Opt { key: "trusted_keys", section: Some("crypto"), yaml: "trusted-keys", cli: "--trusted-key", kind: Kind::List },
    Opt { key: "algorithms", section: Some("crypto"), yaml: "algorithms", cli: "--algorithm", kind: Kind::Algos },
    Opt { key: "hook", section: None, yaml: "hook", cli: "--hook", kind: Kind::OptStr },
    Opt { key: "hooks", section: None, yaml: "hooks", cli: "--hook", kind: Kind::Hooks },
];

/// per option: bit 1 = present in file, bit 2 = present on the command line; `variant` selects values
#[derive(Clone, Debug, Serialize, Deserialize, PartialEq)]
pub struct Case {
    pub presence: Vec<u8>,
    pub variant: Vec<u8>,
}

fn str_val(o: &Opt, src: &str, variant: u8) -> String {
    // an optional string explicitly set to the empty string is a value like any other ("no script", "no prefix")
    if matches!(o.kind, Kind::OptStr) && variant % 16 == 13 {
        return String::new();
    }
    let specials = ["with space", "quote'q", "dq\"x", "colon: y", "#hash", "ünï", "a=b", "[br]", "{x}", "100", "true", "~"];
    if variant % 4 == 3 {
        let sp = specials[(variant as usize / 4) % specials.len()];
        // documented syntax: `--hook SCRIPT` versus `--hook EVENT:SCRIPT`; a generic hook script given on
        // the command line therefore cannot contain a colon (DESIGN.md section 6, command line realism)
        let sp = if o.key == "hook" && src == "cli" { sp.replace(':', "_") } else { sp.to_string() };
        format!("{}-{}-{}", o.key, src, sp)
    } else {
        format!("{}-{}-{}", o.key, src, variant)
    }
}

fn num_val(idx: usize, src: &str, variant: u8) -> u32 {
    let base = if src == "file" { 1000 } else { 2000 };
    match variant % 5 {
        4 => {
            if src == "file" {
                0
            } else {
                u32::MAX
            }
        }
        v => base + idx as u32 * 7 + v as u32,
    }
}

fn list_val(o: &Opt, src: &str, variant: u8) -> Vec<String> {
    let n = if src == "file" { (variant % 3) as usize } else { 1 + (variant % 3) as usize };
    let mut v: Vec<String> = (0..n).map(|i| format!("{}-{}{}", o.key, src, i)).collect();
    if variant % 4 == 2 && !v.is_empty() {
        // duplicate of an entry of the other source: accumulation keeps both
        v.push(format!("{}-shared", o.key));
    }
    v
}

fn enum_val(values: &[&'static str], src: &str, variant: u8) -> &'static str {
    let i = variant as usize + if src == "file" { 0 } else { 1 };
    values[i % values.len()]
}

fn algos_val(src: &str, variant: u8) -> Vec<String> {
    let i = variant as usize + if src == "file" { 0 } else { 2 };
    let mut v = vec![ALGOS[i % 4].to_string()];
    if variant % 2 == 1 {
        v.push(ALGOS[(i + 1) % 4].to_string());
    }
    v
}

fn hooks_val(src: &str, variant: u8) -> BTreeMap<String, String> {
    let mut m = BTreeMap::new();
    // per-event form is EVENT:SCRIPT, split at the FIRST colon: the script itself may contain colons (URLs, IPv6
    // addresses, PATH=a:b, date +%H:%M)
    let script = if variant % 4 == 1 { format!("notify --url http://[fd00::1]:80/{} PATH=/a:/b {}", src, variant) } else { format!("script-{}-{}", src, variant) };
    m.insert(format!("event_{}", src), script);
    if variant % 2 == 0 {
        // same event from both sources: the command line wins for that event
        m.insert("peer_connected".to_string(), format!("pc-{}", src));
    }
    if variant % 8 >= 5 {
        // an event silenced with an empty script (overrides the generic hook for that event)
        m.insert(format!("silenced_{}", src), String::new());
        if variant % 8 == 7 {
            m.insert("peer_connected".to_string(), String::new());
        }
    }
    m
}

fn yq(s: &str) -> String {
    // JSON string syntax is valid YAML double-quoted scalar syntax
    serde_json::to_string(s).unwrap()
}

/// Builds (yaml text or None, argv, expected projection) for a case.
fn build(c: &Case) -> (Option<String>, Vec<String>, Map<String, Value>) {
    let mut sections: BTreeMap<&str, Vec<String>> = BTreeMap::new();
    let mut top: Vec<String> = vec![];
    let mut argv: Vec<String> = vec!["vpncloud".into()];
    let mut exp = Map::new();
    let mut any_file = false;
    for (i, o) in OPTS.iter().enumerate() {
        let mut p = c.presence.get(i).copied().unwrap_or(0) & 3;
        let var = c.variant.get(i).copied().unwrap_or(0);
        if matches!(o.kind, Kind::CliSwitch) {
            p &= 2;
        }
        // command-line realism: clap enforces conflicts/requires
        if o.key == "private_key" && p & 2 != 0 {
            // --private-key conflicts with --password
            let pw_idx = OPTS.iter().position(|x| x.key == "password").unwrap();
            if c.presence.get(pw_idx).copied().unwrap_or(0) & 2 != 0 {
                p &= 1;
            }
        }
        if o.key == "statsd_prefix" && p & 2 != 0 {
            let s_idx = OPTS.iter().position(|x| x.key == "statsd_server").unwrap();
            if c.presence.get(s_idx).copied().unwrap_or(0) & 2 == 0 {
                p &= 1;
            }
        }
        let in_file = p & 1 != 0;
        let in_cli = p & 2 != 0;
        let mut file_line = |line: String| {
            any_file = true;
            match o.section {
                Some(s) => sections.entry(s).or_default().push(line),
                None => top.push(line),
            }
        };
        match o.kind {
            Kind::Str(_) | Kind::OptStr => {
                let fv = str_val(o, "file", var);
                let cv = str_val(o, "cli", var);
                if in_file {
                    file_line(format!("{}: {}", o.yaml, yq(&fv)));
                }
                if in_cli {
                    argv.push(o.cli.into());
                    argv.push(cv.clone());
                }
                let e = if in_cli {
                    json!(cv)
                } else if in_file {
                    json!(fv)
                } else {
                    match o.kind {
                        Kind::Str(d) => json!(d),
                        _ => Value::Null,
                    }
                };
                exp.insert(o.key.into(), e);
            }
            Kind::Num(_) | Kind::OptNum => {
                let fv = num_val(i, "file", var);
                let cv = num_val(i, "cli", var);
                if in_file {
                    file_line(format!("{}: {}", o.yaml, fv));
                }
                if in_cli {
                    argv.push(o.cli.into());
                    argv.push(cv.to_string());
                }
                let e = if in_cli {
                    json!(cv)
                } else if in_file {
                    json!(fv)
                } else {
                    match o.kind {
                        Kind::Num(d) => json!(d),
                        _ => Value::Null,
                    }
                };
                exp.insert(o.key.into(), e);
            }
            Kind::Enum(values, d) => {
                let fv = enum_val(values, "file", var);
                let cv = enum_val(values, "cli", var);
                if in_file {
                    file_line(format!("{}: {}", o.yaml, fv));
                }
                if in_cli {
                    argv.push(o.cli.into());
                    argv.push(cv.to_string());
                }
                exp.insert(o.key.into(), json!(if in_cli { cv } else if in_file { fv } else { d }));
            }
            Kind::Switch { default, cli_value } => {
                let fv = var % 2 == 0;
                if in_file {
                    file_line(format!("{}: {}", o.yaml, fv));
                }
                if in_cli {
                    argv.push(o.cli.into());
                }
                exp.insert(o.key.into(), json!(if in_cli { cli_value } else if in_file { fv } else { default }));
            }
            Kind::CliSwitch => {
                if in_cli {
                    argv.push(o.cli.into());
                }
                exp.insert(o.key.into(), json!(in_cli));
            }
            Kind::List => {
                let fv = list_val(o, "file", var);
                let cv = list_val(o, "cli", var);
                if in_file {
                    if fv.is_empty() {
                        file_line(format!("{}: []", o.yaml));
                    } else {
                        let items: Vec<String> = fv.iter().map(|x| format!("  - {}", yq(x))).collect();
                        file_line(format!("{}:\n{}", o.yaml, items.join("\n")));
                    }
                }
                if in_cli {
                    // both forms: repeated option and delimiter-separated values
                    if var % 2 == 0 {
                        for x in &cv {
                            argv.push(o.cli.into());
                            argv.push(x.clone());
                        }
                    } else if o.key == "peers" {
                        for x in &cv {
                            argv.push("-c".into());
                            argv.push(x.clone());
                        }
                    } else {
                        argv.push(o.cli.into());
                        argv.push(cv.join(","));
                    }
                }
                let mut e: Vec<String> = vec![];
                if in_file {
                    e.extend(fv);
                }
                if in_cli {
                    e.extend(cv);
                }
                exp.insert(o.key.into(), json!(e));
            }
            Kind::Algos => {
                let fv = algos_val("file", var);
                let cv = algos_val("cli", var);
                if in_file {
                    let items: Vec<String> = fv.iter().map(|x| format!("  - {}", x)).collect();
                    file_line(format!("{}:\n{}", o.yaml, items.join("\n")));
                }
                if in_cli {
                    argv.push(o.cli.into());
                    argv.push(cv.join(","));
                }
                exp.insert(o.key.into(), json!(if in_cli { cv } else if in_file { fv } else { vec![] }));
            }
            Kind::Hooks => {
                let fv = hooks_val("file", var);
                let cv = hooks_val("cli", var);
                if in_file {
                    let items: Vec<String> = fv.iter().map(|(k, v)| format!("  {}: {}", k, yq(v))).collect();
                    file_line(format!("{}:\n{}", o.yaml, items.join("\n")));
                }
                if in_cli {
                    for (k, v) in &cv {
                        argv.push("--hook".into());
                        argv.push(format!("{}:{}", k, v));
                    }
                }
                let mut e = BTreeMap::new();
                if in_file {
                    e.extend(fv);
                }
                if in_cli {
                    e.extend(cv);
                }
                exp.insert(o.key.into(), json!(e));
            }
        }
    }
    let yaml = if any_file || c.presence.iter().any(|p| p & 4 != 0) {
        let mut text = String::new();
        for l in &top {
            text.push_str(l);
            text.push('\n');
        }
        for (s, lines) in &sections {
            text.push_str(s);
            text.push_str(":\n");
            for l in lines {
                for ll in l.lines() {
                    text.push_str("  ");
                    text.push_str(ll);
                    text.push('\n');
                }
            }
        }
        if text.is_empty() {
            text.push_str("{}\n");
        }
        Some(text)
    } else {
        None
    };
    (yaml, argv, exp)
}

/// Projection of an effective configuration onto JSON (every field).
pub fn project(c: &Config) -> Map<String, Value> {
    let mut m = Map::new();
    m.insert("device_type".into(), json!(c.device_type.to_string()));
    m.insert("device_name".into(), json!(c.device_name));
    m.insert("device_path".into(), json!(c.device_path));
    m.insert("fix_rp_filter".into(), json!(c.fix_rp_filter));
    m.insert("ip".into(), json!(c.ip));
    m.insert("advertise_addresses".into(), json!(c.advertise_addresses));
    m.insert("ifup".into(), json!(c.ifup));
    m.insert("ifdown".into(), json!(c.ifdown));
    m.insert("listen".into(), json!(c.listen));
    m.insert("peers".into(), json!(c.peers));
    m.insert("peer_timeout".into(), json!(c.peer_timeout));
    m.insert("keepalive".into(), json!(c.keepalive));
    m.insert("beacon_store".into(), json!(c.beacon_store));
    m.insert("beacon_load".into(), json!(c.beacon_load));
    m.insert("beacon_interval".into(), json!(c.beacon_interval));
    m.insert("beacon_password".into(), json!(c.beacon_password));
    m.insert("mode".into(), json!(c.mode.to_string()));
    m.insert("switch_timeout".into(), json!(c.switch_timeout));
    m.insert("claims".into(), json!(c.claims));
    m.insert("auto_claim".into(), json!(c.auto_claim));
    m.insert("port_forwarding".into(), json!(c.port_forwarding));
    m.insert("daemonize".into(), json!(c.daemonize));
    m.insert("pid_file".into(), json!(c.pid_file));
    m.insert("stats_file".into(), json!(c.stats_file));
    m.insert("statsd_server".into(), json!(c.statsd_server));
    m.insert("statsd_prefix".into(), json!(c.statsd_prefix));
    m.insert("user".into(), json!(c.user));
    m.insert("group".into(), json!(c.group));
    m.insert("password".into(), json!(c.crypto.password));
    m.insert("private_key".into(), json!(c.crypto.private_key));
    m.insert("public_key".into(), json!(c.crypto.public_key));
    m.insert("trusted_keys".into(), json!(c.crypto.trusted_keys));
    m.insert("algorithms".into(), json!(c.crypto.algorithms));
    m.insert("hook".into(), json!(c.hook));
    let hooks: BTreeMap<String, String> = c.hooks.iter().map(|(k, v)| (k.clone(), v.clone())).collect();
    m.insert("hooks".into(), json!(hooks));
    m
}

pub fn merge_real(yaml: &Option<String>, argv: &[String]) -> Result<Config, String> {
    let mut config = Config::default();
    if let Some(text) = yaml {
        let file: ConfigFile = serde_yaml::from_str(text).map_err(|e| format!("file rejected: {} --- {}", e, text))?;
        config.merge_file(file);
    }
    let args = Args::from_iter_safe(argv.iter()).map_err(|e| format!("argv rejected: {} --- {:?}", e.message, argv))?;
    config.merge_args(args);
    Ok(config)
}

pub fn check_merge(ctx: &Ctx, c: &Case) -> Vec<Viol> {
    ctx.eval();
    let cj = || json!({"kind": "merge", "case": serde_json::to_value(c).unwrap()});
    let (yaml, argv, exp) = build(c);
    let mut out = vec![];
    let r = catch(|| merge_real(&yaml, &argv));
    match r {
        Err(p) => out.push(Viol::new(format!("merge-{}", p.sig()), format!("merging panicked: {}", p.msg), cj())),
        Ok(Err(e)) => out.push(Viol::new(
            "source-rejected",
            format!("a generated config file / command line was rejected (generator precondition or parser change): {}", e),
            cj(),
        )),
        Ok(Ok(cfg)) => {
            let got = project(&cfg);
            for (k, ev) in &exp {
                let gv = got.get(k).cloned().unwrap_or(Value::Null);
                if &gv != ev {
                    let i = OPTS.iter().position(|o| o.key == k).unwrap();
                    let p = c.presence[i] & 3;
                    let src = ["absent", "file only", "command line only", "file and command line"][p as usize];
                    out.push(Viol::new(
                        format!("merge-wrong/{}/{}", k, src.replace(' ', "-")),
                        format!("setting {} ({}): expected {}, effective configuration has {}", k, src, ev, gv),
                        cj(),
                    ));
                }
            }
        }
    }
    let both = c.presence.iter().filter(|p| **p & 3 == 3).count();
    let any = c.presence.iter().filter(|p| **p & 3 != 0).count();
    if both > 0 {
        ctx.class("merge:some-option-in-both-sources");
    } else if any > 0 {
        ctx.class("merge:single-source-only");
    } else {
        ctx.class("merge:defaults-only");
    }
    if any > 0 {
        ctx.nontrivial(&("merge", &c.presence, &c.variant));
    }
    out
}

// ---------- round trip through the file form ----------

#[derive(Clone, Debug, Serialize, Deserialize)]
pub struct RtCase {
    pub presence: Vec<u8>,
    pub variant: Vec<u8>,
}

pub fn check_roundtrip(ctx: &Ctx, c: &RtCase) -> Vec<Viol> {
    ctx.eval();
    let cj = || json!({"kind": "roundtrip", "case": serde_json::to_value(c).unwrap()});
    // an effective configuration produced by the real merge of a generated source pair
    let case = Case { presence: c.presence.clone(), variant: c.variant.clone() };
    let (yaml, argv, _) = build(&case);
    let cfg = match merge_real(&yaml, &argv) {
        Ok(c) => c,
        Err(_) => return vec![],
    };
    let r = catch(|| {
        let file = cfg.clone().into_config_file();
        let text = serde_yaml::to_string(&file).map_err(|e| e.to_string())?;
        let back: ConfigFile = serde_yaml::from_str(&text).map_err(|e| format!("{} --- {}", e, text))?;
        let mut fresh = Config::default();
        fresh.merge_file(back);
        Ok::<_, String>((fresh, text))
    });
    let mut out = vec![];
    match r {
        Err(p) => out.push(Viol::new(format!("roundtrip-{}", p.sig()), p.msg, cj())),
        Ok(Err(e)) => out.push(Viol::new("roundtrip-file-rejected", format!("file form not readable: {}", e), cj())),
        Ok(Ok((fresh, _text))) => {
            let mut a = project(&cfg);
            let mut b = project(&fresh);
            // the only setting the file format cannot express
            a.remove("daemonize");
            b.remove("daemonize");
            for (k, av) in &a {
                if b.get(k) != Some(av) {
                    out.push(Viol::new(
                        format!("roundtrip-loses/{}", k),
                        format!("setting {} = {} became {} after into_config_file + merge onto defaults", k, av, b.get(k).cloned().unwrap_or(Value::Null)),
                        cj(),
                    ));
                }
            }
            ctx.nontrivial(&("roundtrip", &c.presence, &c.variant));
        }
    }
    out
}

// ---------- netmask ----------

pub fn ref_netmask(s: &str) -> Result<(String, u32), ()> {
    let (ip, len) = match s.find('/') {
        Some(p) => (&s[..p], &s[p + 1..]),
        None => (s, "24"),
    };
    let plen: u8 = len.parse().map_err(|_| ())?;
    if plen > 32 {
        return Err(());
    }
    let ipa: std::net::Ipv4Addr = ip.parse().map_err(|_| ())?;
    let mask: u32 = if plen == 0 { 0 } else { (!0u32) << (32 - plen as u32) };
    Ok((ipa.to_string(), mask))
}

pub fn check_netmask(ctx: &Ctx, s: &str) -> Vec<Viol> {
    ctx.eval();
    let cj = || json!({"kind": "netmask", "text": s});
    let exp = ref_netmask(s);
    let got = catch(|| vpncloud::verif_parse_ip_netmask(s));
    let mut out = vec![];
    match (exp, got) {
        (_, Err(p)) => out.push(Viol::new(
            format!("netmask-{}", p.sig()),
            format!("parsing interface address {:?} panicked: {} at {}", s, p.msg, p.loc),
            cj(),
        )),
        (Ok((ip, mask)), Ok(Ok((gip, gmask)))) => {
            ctx.nontrivial(&("netmask", s));
            if gip.to_string() != ip || u32::from(gmask) != mask {
                out.push(Viol::new(
                    "netmask-wrong",
                    format!("{:?}: expected {} / {:08x}, got {} / {:08x}", s, ip, mask, gip, u32::from(gmask)),
                    cj(),
                ));
            }
        }
        (Ok(_), Ok(Err(e))) => out.push(Viol::new("netmask-rejects-valid", format!("{:?} rejected: {}", s, e), cj())),
        (Err(()), Ok(Ok((gip, gmask)))) => {
            out.push(Viol::new("netmask-accepts-invalid", format!("{:?} accepted as {} / {}", s, gip, gmask), cj()))
        }
        (Err(()), Ok(Err(_))) => {
            ctx.class("netmask:rejected");
        }
    }
    out
}

fn case_strategy() -> impl Strategy<Value = Case> {
    let n = OPTS.len();
    (proptest::collection::vec(0u8..4, n), proptest::collection::vec(any::<u8>(), n)).prop_map(|(presence, variant)| Case { presence, variant })
}

pub fn run(ctx: &Ctx) {
    // clap reads these from the environment; the generator controls all sources
    std::env::remove_var("PASSWORD");
    std::env::remove_var("PRIVATE_KEY");
    ctx.rule(
        "merge case = per option (35 options) a presence state {absent, file, command line, both} and a value \
         variant; sources are real YAML text (serde_yaml) and a real argv (Args::from_iter_safe); the effective \
         Config is projected field by field and compared with ConfigRef. Exhaustive per option (4 states x 8 \
         variants) and pairwise (16 state pairs per option pair), proptest for full combinations. Round trip: \
         effective configs from those merges -> into_config_file -> YAML -> merge onto defaults. Netmask: every \
         prefix 0..=40 x addresses, omitted prefix, malformed strings. Non-trivial = at least one option present / \
         valid address; distinct = hash of the case.",
    );
    ctx.assume("command-line realism: --private-key never together with --password, --statsd-prefix only with --statsd-server, no commas in delimiter-split values, env PASSWORD/PRIVATE_KEY removed");
    let n = OPTS.len();

    // (1) exhaustive per option
    let mut cases = vec![];
    for i in 0..n {
        for p in 0..4u8 {
            for var in 0..12u8 {
                let mut presence = vec![0u8; n];
                let mut variant = vec![0u8; n];
                presence[i] = p;
                variant[i] = var;
                // statsd-prefix on the command line needs statsd-server there too
                if OPTS[i].key == "statsd_prefix" && p & 2 != 0 {
                    presence[OPTS.iter().position(|o| o.key == "statsd_server").unwrap()] = 2;
                }
                cases.push(Case { presence, variant });
            }
        }
    }
    ctx.par_items(&cases, |_, c| {
        let v = check_merge(ctx, c);
        ctx.report(v);
    });
    ctx.subspace("per option: 4 presence states x 12 value variants", cases.len() as u64, true);
    if let Some(c) = cases.get(7 * 48 + 3 * 12 + 3) {
        let (y, a, e) = build(c);
        ctx.sample("per-option", || json!({"yaml": y, "argv": a, "expected_subset": {"ifdown": e.get("ifdown"), "ifup": e.get("ifup")}}));
    }

    // (2) pairwise
    let mut pairs = vec![];
    for i in 0..n {
        for j in (i + 1)..n {
            for pi in 0..4u8 {
                for pj in 0..4u8 {
                    let mut presence = vec![0u8; n];
                    let mut variant = vec![0u8; n];
                    presence[i] = pi;
                    presence[j] = pj;
                    variant[i] = (i + j) as u8;
                    variant[j] = (i * 3 + j) as u8;
                    pairs.push(Case { presence, variant });
                }
            }
        }
    }
    ctx.par_items(&pairs, |_, c| {
        let v = check_merge(ctx, c);
        ctx.report(v);
    });
    ctx.subspace("pairwise: every option pair x 16 presence combinations", pairs.len() as u64, true);

    // (3) proptest full combinations
    let nfull: u32 = ctx.tier.pick(40_000, 400_000);
    ctx.proptest("pt-merge", nfull, case_strategy, |c| {
        let v = check_merge(ctx, c);
        if ctx.wants_sample("full-combination") {
            let (y, a, _) = build(c);
            ctx.sample("full-combination", || json!({"yaml": y, "argv": a}));
        }
        v
    });
    ctx.subspace("proptest: random full combinations over all options", nfull as u64, false);

    // (4) round trip
    let nrt: u32 = ctx.tier.pick(30_000, 300_000);
    ctx.proptest("pt-roundtrip", nrt, case_strategy, |c| check_roundtrip(ctx, &RtCase { presence: c.presence.clone(), variant: c.variant.clone() }));
    ctx.subspace("proptest: round trip of random effective configurations through the file form", nrt as u64, false);
    // round trip of per-option cases
    ctx.par_items(&cases, |_, c| {
        let v = check_roundtrip(ctx, &RtCase { presence: c.presence.clone(), variant: c.variant.clone() });
        ctx.report(v);
    });
    ctx.subspace("round trip: per-option cases", cases.len() as u64, true);

    // (5) netmask
    let mut texts: Vec<String> = vec![];
    let ips = ["10.0.1.1", "0.0.0.0", "255.255.255.255", "192.168.7.77", "1.2.3.4"];
    for ip in ips {
        texts.push(ip.to_string());
        for p in 0..=40 {
            texts.push(format!("{}/{}", ip, p));
        }
    }
    for bad in [
        "", "/", "/24", "10.0.0.1/", "10.0.0.1/-1", "10.0.0.1/ 8", "10.0.0.1/+8", "10.0.0.1/08", "10.0.0.1/256", "10.0.0.1/300", "10.0.0/8", "10.0.0.1.2/8",
        "::1/64", "10.0.0.1/8/8", "a.b.c.d/8", "10.0.0.256/8", " 10.0.0.1/8", "10.0.0.1/8 ", "10.0.0.1/٣", "10.0.0.1/0x10", "010.0.0.1/8", "10.0.0.1/99999999999999999999",
    ] {
        texts.push(bad.to_string());
    }
    ctx.par_items(&texts, |_, t| {
        let v = check_netmask(ctx, t);
        if t == "10.0.1.1/0" || t == "10.0.1.1/16" {
            ctx.sample("netmask", || json!({"text": t, "reference": format!("{:?}", ref_netmask(t))}));
        }
        ctx.report(v);
    });
    ctx.subspace("netmask: 5 addresses x (omitted + every prefix 0..=40) + malformed strings", texts.len() as u64, true);
    let nnm: u32 = ctx.tier.pick(50_000, 500_000);
    ctx.proptest(
        "pt-netmask",
        nnm,
        || prop_oneof![
            3 => (any::<[u8; 4]>(), 0u32..300).prop_map(|(ip, p)| format!("{}.{}.{}.{}/{}", ip[0], ip[1], ip[2], ip[3], p)),
            1 => "[0-9./]{0,20}",
            1 => "\\PC{0,16}",
        ],
        |t| check_netmask(ctx, t),
    );
    ctx.subspace("proptest: random address/prefix strings", nnm as u64, false);
    let _ = pick_idx(0, 1);
}

pub fn replay(ctx: &Ctx, case: &Value) {
    std::env::remove_var("PASSWORD");
    std::env::remove_var("PRIVATE_KEY");
    let v = match case["kind"].as_str() {
        Some("merge") => match serde_json::from_value::<Case>(case["case"].clone()) {
            Ok(c) => check_merge(ctx, &c),
            Err(_) => vec![],
        },
        Some("roundtrip") => match serde_json::from_value::<RtCase>(case["case"].clone()) {
            Ok(c) => check_roundtrip(ctx, &c),
            Err(_) => vec![],
        },
        Some("netmask") => check_netmask(ctx, case["text"].as_str().unwrap_or("")),
        _ => vec![],
    };
    ctx.report(v);
}
