//! C06 - cipher negotiation is symmetric and cannot be downgraded.
//! Oracle: NegotiationRef (plain iff both; argmax over the common ciphers of the minimum speed;
//! clean failure iff nothing in common) + metamorphic invariance under list order and initiator.

use crate::engine::{pick_idx, Ctx, Viol};
use crate::sim::{catch, keypair_from_seed, pubkey, EndSpec, Event, PairSim};
use proptest::prelude::*;
use serde::{Deserialize, Serialize};
use serde_json::{json, Value};
use smallvec::SmallVec;
use vpncloud::crypto::{Algorithms, Crypto};

/// one end's advertisement: plain flag + ordered list of (cipher 1..=3, speed)
#[derive(Clone, Debug, Serialize, Deserialize, PartialEq)]
pub struct Adv {
    pub plain: bool,
    pub list: Vec<(u8, f32)>,
}

#[derive(Clone, Debug, Serialize, Deserialize)]
pub struct Case {
    pub a: Adv,
    pub b: Adv,
    /// 0: A initiates, 1: B initiates
    pub initiator: u8,
    /// entries with cipher ids this version does not know (a newer peer's list), inserted into the signed list of
    /// the ping (`unknown_in` bit 0) and / or the pong (bit 1): (position in the list, cipher id >= 4, speed).
    /// They are not common ciphers, so the outcome must be what it is without them.
    #[serde(default)]
    pub unknown: Vec<(u8, u8, f32)>,
    #[serde(default)]
    pub unknown_in: u8,
}

/// the same handshake message with extra cipher entries in its list, signed again with the sender's (trusted) key
fn with_unknown_ciphers(bytes: &[u8], kp: &ring::signature::Ed25519KeyPair, extra: &[(u8, u8, f32)]) -> Option<Vec<u8>> {
    use ring::signature::KeyPair;
    use vpncloud::crypto::verif::InitMsg;
    let mut pk = [0u8; 32];
    pk.copy_from_slice(kp.public_key().as_ref());
    let (msg, _) = InitMsg::verif_read_from(&bytes[1..], &[pk]).ok()?;
    let (stage, hash, ecdh, algos, payload) = crate::props::c16::init_fields(&msg);
    let (plain, list) = algos?;
    let mut l: Vec<(u8, u32)> = list;
    for (pos, id, speed) in extra {
        let at = (*pos as usize).min(l.len());
        l.insert(at, ((*id).max(4), speed.to_bits()));
    }
    if plain {
        l.insert(0, (0, f32::INFINITY.to_bits()));
    }
    let d = crate::props::c16::InitDesc { stage, hash, ecdh: ecdh.unwrap_or_default(), algos: l, payload: payload.unwrap_or_default(), seed: [0; 32], unknown: vec![] };
    let mut salt = [0u8; 4];
    salt.copy_from_slice(&bytes[1..5]);
    let mut out = vec![0xffu8];
    out.extend_from_slice(&crate::props::c16::ref_encode_init(&d, kp, salt, false));
    Some(out)
}

fn algo_of(id: u8) -> &'static ring::aead::Algorithm {
    match id {
        1 => &ring::aead::AES_128_GCM,
        2 => &ring::aead::AES_256_GCM,
        _ => &ring::aead::CHACHA20_POLY1305,
    }
}

pub fn name_of(id: u8) -> &'static str {
    match id {
        1 => "AES128",
        2 => "AES256",
        _ => "CHACHA20",
    }
}

fn to_algos(a: &Adv) -> Algorithms {
    let speeds: SmallVec<[(&'static ring::aead::Algorithm, f32); 3]> = a.list.iter().map(|(id, s)| (algo_of(*id), *s)).collect();
    Algorithms { algorithm_speeds: speeds, allow_unencrypted: a.plain }
}

#[derive(Debug, PartialEq)]
pub enum Expected {
    Plain,
    Fail,
    /// any of these cipher names (ties), but the same at both ends
    OneOf(Vec<&'static str>),
}

pub fn negotiation_ref(a: &Adv, b: &Adv) -> Expected {
    if a.plain && b.plain {
        return Expected::Plain;
    }
    let mut best: Option<f32> = None;
    let mut set = vec![];
    for id in 1..=3u8 {
        let sa = a.list.iter().find(|(x, _)| *x == id).map(|(_, s)| *s);
        let sb = b.list.iter().find(|(x, _)| *x == id).map(|(_, s)| *s);
        if let (Some(sa), Some(sb)) = (sa, sb) {
            let m = if sa < sb { sa } else { sb };
            match best {
                None => {
                    best = Some(m);
                    set = vec![name_of(id)];
                }
                Some(bst) if m > bst => {
                    best = Some(m);
                    set = vec![name_of(id)];
                }
                Some(bst) if m == bst => set.push(name_of(id)),
                _ => {}
            }
        }
    }
    if set.is_empty() {
        Expected::Fail
    } else {
        Expected::OneOf(set)
    }
}

/// returns (violations, outcome string) - outcome is "PLAIN", a cipher name or "FAIL"
pub fn run_case(ctx: &Ctx, c: &Case) -> (Vec<Viol>, String) {
    ctx.eval();
    let cj = || json!({"kind": "negotiation", "case": c});
    let mut out = vec![];
    let key = keypair_from_seed(3);
    let t = vec![pubkey(&key)];
    let ea = EndSpec { key: key.clone(), trusted: t.clone(), algos: to_algos(&c.a), id: 1 };
    let eb = EndSpec { key: key.clone(), trusted: t, algos: to_algos(&c.b), id: 2 };
    let expected = negotiation_ref(&c.a, &c.b);
    let mut outcome = String::from("FAIL");
    let r = catch(|| {
        let mut sim = PairSim::new(&ea, &eb, None);
        let ini = (c.initiator % 2) as usize;
        sim.init(ini);
        if !c.unknown.is_empty() {
            // the ping and / or the pong carries cipher entries this version does not know
            for stage_bit in [1u8, 2] {
                if c.unknown_in & stage_bit != 0 {
                    if let Some(last) = sim.inflight.last_mut() {
                        if let Some(b) = with_unknown_ciphers(&last.1, &key, &c.unknown) {
                            last.1 = b;
                            ctx.class(if stage_bit == 1 { "negotiation:ping-with-unknown-cipher-ids" } else { "negotiation:pong-with-unknown-cipher-ids" });
                        }
                    }
                }
                if !sim.inflight.is_empty() {
                    sim.deliver(0);
                }
            }
        }
        sim.settle();
        (sim.ends[0].is_ready(), sim.ends[1].is_ready(), sim.completed, sim.ends[0].algorithm_name(), sim.ends[1].algorithm_name(), sim.events)
    });
    match r {
        Err(p) => out.push(Viol::new(format!("negotiation-{}", p.sig()), format!("panic during negotiation: {} at {}", p.msg, p.loc), cj())),
        Ok((_ra, _rb, completed, na, nb, events)) => {
            let both = completed[0] > 0 && completed[1] > 0;
            let none = completed[0] == 0 && completed[1] == 0;
            let errors: Vec<String> = events.iter().filter_map(|e| if let Event::Error { text, side, .. } = e { Some(format!("side {}: {}", side, text)) } else { None }).collect();
            match &expected {
                Expected::Fail => {
                    if !none {
                        out.push(Viol::new("handshake-completes-without-common-cipher", format!("no common cipher, yet completed {:?} with {} / {}", completed, na, nb), cj()));
                    }
                }
                Expected::Plain => {
                    if !both {
                        out.push(Viol::new("plain-handshake-failed", format!("both enable plain but the handshake did not complete: {:?}", errors), cj()));
                    } else if na != "PLAIN" || nb != "PLAIN" {
                        out.push(Viol::new("plain-not-selected", format!("both enable plain, selected {} / {}", na, nb), cj()));
                    } else {
                        outcome = "PLAIN".into();
                    }
                }
                Expected::OneOf(set) => {
                    if !both {
                        let tie = set.len() > 1;
                        out.push(Viol::new(
                            if tie { "tie-on-best-speed-ends-disagree" } else { "handshake-fails-despite-common-cipher" },
                            format!("common cipher(s) {:?} exist but the handshake did not complete (completed {:?}, errors {:?})", set, completed, errors),
                            cj(),
                        ));
                    } else if na != nb {
                        out.push(Viol::new("ends-select-different-ciphers", format!("{} vs {}", na, nb), cj()));
                    } else if na == "PLAIN" {
                        out.push(Viol::new("downgrade-to-plain", "plain selected although only one end enabled it".to_string(), cj()));
                    } else if !set.contains(&na) {
                        out.push(Viol::new("not-the-fastest-common-cipher", format!("selected {}, reference allows {:?}", na, set), cj()));
                    } else {
                        outcome = na.to_string();
                    }
                }
            }
        }
    }
    let common = (1..=3u8).filter(|id| c.a.list.iter().any(|(x, _)| x == id) && c.b.list.iter().any(|(x, _)| x == id)).count();
    if common >= 2 {
        ctx.nontrivial(&format!("{:?}", c));
        if let Expected::OneOf(s) = &expected {
            if s.len() > 1 {
                ctx.class("negotiation:tie-on-best");
            } else {
                ctx.class("negotiation:>=2-common-unique-best");
            }
        } else {
            ctx.class("negotiation:plain-with->=2-common");
        }
    } else {
        ctx.class(match expected {
            Expected::Fail => "negotiation:nothing-in-common",
            Expected::Plain => "negotiation:plain",
            _ => "negotiation:one-common",
        });
    }
    (out, outcome)
}

/// A peer that comes back with other cipher settings while the first connection's handshake object still lingers at the
/// initiator: A (list `a`) dials B (list `b1`); then a fresh B' (list `b2`, same key) dials A. If A accepts the new
/// handshake at all, what A seals afterwards must follow the NEW negotiation: cleartext only if A and B' both enable plain,
/// and B' must open it. (On the unchanged code A's lingering object just repeats its old peng and never completes twice;
/// the oracle then has nothing to judge - it bites on changes that let one object run a second handshake.)
pub fn restart_case(ctx: &Ctx, a: &Adv, b1: &Adv, b2: &Adv) -> Vec<Viol> {
    use vpncloud::crypto::{MessageResult, PeerCrypto};
    ctx.eval();
    let cj = || json!({"kind": "restart", "a": a, "b1": b1, "b2": b2});
    let mut out = vec![];
    let key = keypair_from_seed(3);
    let t = vec![pubkey(&key)];
    let ea = EndSpec { key: key.clone(), trusted: t.clone(), algos: to_algos(a), id: 1 };
    let eb = EndSpec { key: key.clone(), trusted: t.clone(), algos: to_algos(b1), id: 2 };
    let r = catch(|| {
        let mut sim = PairSim::new(&ea, &eb, None);
        sim.init(0);
        sim.settle();
        if sim.completed != [1, 1] {
            return None; // first handshake did not complete (nothing in common): not this family's subject
        }
        let before = sim.ends[0].algorithm_name();
        let mut bp: PeerCrypto<vpncloud::messages::NodeInfo> = PeerCrypto::new(crate::sim::node_id(3), crate::sim::rich_node_info(3), key.clone(), t.clone().into_boxed_slice().into(), to_algos(b2));
        let mut buf = crate::sim::new_buf();
        if bp.initialize(&mut buf).is_err() {
            return None;
        }
        let mut to_a: Option<Vec<u8>> = Some(buf.message().to_vec());
        let mut bp_done = false;
        for _ in 0..12 {
            let m = match to_a.take() {
                Some(m) => m,
                None => break,
            };
            sim.inflight.clear();
            let _ = sim.feed(0, &m);
            let reply = sim.inflight.pop().map(|(_, d)| d);
            if let Some(rp) = reply {
                if rp.is_empty() {
                    break;
                }
                let mut b = crate::sim::new_buf();
                b.set_length(rp.len());
                b.message_mut().copy_from_slice(&rp);
                match bp.handle_message(&mut b) {
                    Ok(MessageResult::Reply) => to_a = Some(b.message().to_vec()),
                    Ok(MessageResult::InitializedWithReply(_)) => {
                        bp_done = true;
                        to_a = Some(b.message().to_vec());
                    }
                    Ok(MessageResult::Initialized(_)) => bp_done = true,
                    _ => {}
                }
            }
        }
        Some((sim.completed[0], before, sim.ends[0].algorithm_name(), bp_done, sim.seal_probe(0), bp))
    });
    match r {
        Err(p) => out.push(Viol::new(format!("negotiation-{}", p.sig()), format!("panic during a second handshake: {} at {}", p.msg, p.loc), cj())),
        Ok(None) => {}
        Ok(Some((a_completed, before, after, bp_done, probe, mut bp))) => {
            if a_completed >= 2 || bp_done {
                ctx.class("restart:second-handshake-accepted");
                let both_plain = a.plain && b2.plain;
                match probe {
                    Err(e) => out.push(Viol::new("restart-probe-seal-failed", e, cj())),
                    Ok((wire, payload)) => {
                        let clear = wire.windows(payload.len()).any(|w| w == &payload[..]);
                        if clear && !both_plain {
                            out.push(Viol::new(
                                "plain-after-renegotiation-without-both-enabling-it",
                                format!("after a second handshake (cipher reported {} -> {}) the initiator seals nothing: payload in clear although the new peer does not enable plain", before, after),
                                cj(),
                            ));
                        }
                        let mut b = crate::sim::new_buf();
                        b.set_length(wire.len());
                        b.message_mut().copy_from_slice(&wire);
                        let opened = matches!(bp.handle_message(&mut b), Ok(MessageResult::Message(0))) && b.message() == &payload[..];
                        if bp_done && !opened && !clear {
                            out.push(Viol::new("ends-disagree-after-renegotiation", format!("the new peer completed its handshake but cannot open what the initiator seals (cipher {} -> {})", before, after), cj()));
                        }
                    }
                }
                ctx.nontrivial(&format!("restart {:?} {:?} {:?}", a, b1, b2));
            } else {
                ctx.class("restart:lingering-object-does-not-renegotiate");
            }
        }
    }
    out
}

fn permutations(v: &[u8]) -> Vec<Vec<u8>> {
    if v.len() <= 1 {
        return vec![v.to_vec()];
    }
    let mut out = vec![];
    for i in 0..v.len() {
        let mut rest = v.to_vec();
        let x = rest.remove(i);
        for mut p in permutations(&rest) {
            p.insert(0, x);
            out.push(p);
        }
    }
    out
}

fn subsets() -> Vec<(bool, Vec<u8>)> {
    let mut v = vec![];
    for mask in 0..16u8 {
        let ids: Vec<u8> = (1..=3u8).filter(|i| mask & (1 << i) != 0).collect();
        v.push((mask & 1 != 0, ids));
    }
    v
}

pub fn run(ctx: &Ctx) {
    ctx.rule(
        "negotiation case = (advertisement of A, advertisement of B, initiator); advertisement = plain flag + \
         ORDERED list of (cipher, speed). Exhaustive grid: all 16 x 16 subset pairs x every ordering of both lists \
         x both initiators x 3 speed patterns (all distinct / all tied / tie on the best minimum); proptest: speeds \
         from {0, 1e-3, 1, 100, 1e9, f32::MAX} and random values with ties by construction. Each case is a real \
         handshake of two PeerCrypto objects; oracle NegotiationRef + invariance of the outcome over orderings and \
         initiator (compared per subset pair and speed assignment). Non-trivial = at least 2 common ciphers; \
         distinct = whole case.",
    );
    ctx.assume("NaN speeds are excluded (no node can measure NaN)");
    // speed patterns: per cipher id (1,2,3) speeds for A and B
    let patterns: [([f32; 3], [f32; 3]); 3] = [
        ([600.0, 500.0, 400.0], [40.0, 50.0, 60.0]),   // all distinct, best = chacha (min 60)
        ([100.0, 100.0, 100.0], [100.0, 100.0, 100.0]), // all tied
        ([300.0, 200.0, 100.0], [200.0, 300.0, 100.0]), // tie on the best minimum between aes128 and aes256
    ];
    let subs = subsets();
    // tasks: (subset A, subset B, pattern); inside: all orderings x initiators, outcome must be invariant
    let mut tasks = vec![];
    for (ia, _) in subs.iter().enumerate() {
        for (ib, _) in subs.iter().enumerate() {
            for p in 0..3 {
                tasks.push((ia, ib, p));
            }
        }
    }
    let total = std::sync::atomic::AtomicU64::new(0);
    ctx.par_items(&tasks, |_, (ia, ib, p)| {
        let (pa, la) = &subs[*ia];
        let (pb, lb) = &subs[*ib];
        let (sa, sb) = &patterns[*p];
        let mut outcomes: Vec<(String, Case)> = vec![];
        for oa in permutations(la) {
            for ob in permutations(lb) {
                for ini in 0..2u8 {
                    let c = Case {
                        a: Adv { plain: *pa, list: oa.iter().map(|id| (*id, sa[*id as usize - 1])).collect() },
                        b: Adv { plain: *pb, list: ob.iter().map(|id| (*id, sb[*id as usize - 1])).collect() },
                        initiator: ini,
                        unknown: vec![],
                        unknown_in: 0,
                    };
                    let (v, outcome) = run_case(ctx, &c);
                    total.fetch_add(1, std::sync::atomic::Ordering::Relaxed);
                    let failed = !v.is_empty();
                    ctx.report(v);
                    if !failed {
                        outcomes.push((outcome, c));
                    }
                }
            }
        }
        // metamorphic: same sets and speeds => same outcome for every ordering and initiator
        if let Some((first, c0)) = outcomes.first() {
            for (o, c) in &outcomes[1..] {
                if o != first {
                    ctx.violation(Viol::new(
                        "outcome-depends-on-list-order-or-initiator",
                        format!("same advertised sets and speeds, outcome {} for {:?} but {} for {:?}", first, c0, o, c),
                        json!({"kind": "negotiation-pair", "first": c0, "second": c}),
                    ));
                    break;
                }
            }
        }
        if *ia == 14 && *ib == 14 && *p == 0 {
            ctx.sample("grid", || json!({"a": subs[*ia], "b": subs[*ib], "pattern": p, "outcome": outcomes.first().map(|o| o.0.clone())}));
        }
    });
    ctx.subspace("16 x 16 subset pairs x all orderings x both initiators x 3 speed patterns", total.load(std::sync::atomic::Ordering::Relaxed), true);

    // proptest with speed grid and ties by construction
    let grid = [0.0f32, 1e-3, 1.0, 100.0, 1e9, f32::MAX];
    let n: u32 = ctx.tier.pick(30_000, 400_000);
    ctx.proptest(
        "pt-negotiation",
        n,
        || {
            let adv = || {
                (any::<bool>(), proptest::collection::vec((1u8..=3, any::<u16>(), any::<bool>(), 0.0f32..2000.0), 0..=3)).prop_map(move |(plain, l)| {
                    let mut seen = vec![];
                    let list: Vec<(u8, f32)> = l
                        .into_iter()
                        .filter(|(id, ..)| {
                            if seen.contains(id) {
                                false
                            } else {
                                seen.push(*id);
                                true
                            }
                        })
                        .map(|(id, g, use_grid, r)| (id, if use_grid { grid[pick_idx(g, grid.len())] } else { r.round() }))
                        .collect();
                    Adv { plain, list }
                })
            };
            (adv(), adv(), 0u8..2, any::<bool>())
        },
        |(a, b, ini, reversed)| {
            let c = Case { a: a.clone(), b: b.clone(), initiator: *ini, unknown: vec![], unknown_in: 0 };
            let (mut v, o1) = run_case(ctx, &c);
            // metamorphic partner: reversed list orders, other initiator
            if v.is_empty() && *reversed {
                let mut a2 = a.clone();
                a2.list.reverse();
                let mut b2 = b.clone();
                b2.list.reverse();
                let c2 = Case { a: a2, b: b2, initiator: 1 - *ini, unknown: vec![], unknown_in: 0 };
                let (v2, o2) = run_case(ctx, &c2);
                v.extend(v2);
                if v.is_empty() && o1 != o2 {
                    v.push(Viol::new(
                        "outcome-depends-on-list-order-or-initiator",
                        format!("outcome {} vs {} after reversing both lists and swapping the initiator", o1, o2),
                        json!({"kind": "negotiation-pair", "first": c, "second": c2}),
                    ));
                }
            }
            ctx.sample("random-negotiation", || json!({"case": c, "outcome": o1}));
            v
        },
    );
    ctx.subspace("proptest advertisements: speeds from the grid {0,1e-3,1,100,1e9,f32::MAX} or rounded random values, + reversed partner", n as u64, false);

    // a newer peer: its signed list also holds cipher ids this version does not know - all subset pairs x positions of
    // the unknown entries x {ping, pong, both}; the outcome must be the one the known entries give
    {
        let mut cases = vec![];
        let (sa, sb) = &patterns[0];
        for (pa, la) in &subs {
            for (pb, lb) in &subs {
                for (k, unknown) in [vec![(0u8, 4u8, 900.0f32)], vec![(9, 7, 0.0)], vec![(1, 200, 1e9), (0, 255, 3.0)], vec![(1, 5, f32::MAX)]].into_iter().enumerate() {
                    for unknown_in in 1..=3u8 {
                        if ctx.quick() && (k as u8 + unknown_in) % 2 == 0 {
                            continue;
                        }
                        cases.push(Case {
                            a: Adv { plain: *pa, list: la.iter().map(|id| (*id, sa[*id as usize - 1])).collect() },
                            b: Adv { plain: *pb, list: lb.iter().rev().map(|id| (*id, sb[*id as usize - 1])).collect() },
                            initiator: (k % 2) as u8,
                            unknown: unknown.clone(),
                            unknown_in,
                        });
                    }
                }
            }
        }
        let nc = cases.len() as u64;
        ctx.par_items(&cases, |_, c| {
            let (v, _) = run_case(ctx, c);
            ctx.report(v);
        });
        ctx.sample("unknown-cipher-ids", || serde_json::to_value(&cases[cases.len() / 3]).unwrap());
        ctx.subspace("lists that also hold unknown cipher ids (newer peer), re-signed with the trusted key: 16 x 16 subset pairs x 4 placements x {ping, pong, both}", nc, !ctx.quick());
    }

    // a peer that comes back with another list while the initiator's handshake object lingers
    {
        let lists: Vec<Adv> = vec![
            Adv { plain: true, list: vec![] },
            Adv { plain: true, list: vec![(2, 500.0), (1, 600.0)] },
            Adv { plain: false, list: vec![(2, 500.0)] },
            Adv { plain: false, list: vec![(1, 600.0), (2, 500.0), (3, 400.0)] },
            Adv { plain: false, list: vec![(3, 400.0)] },
        ];
        let mut n = 0u64;
        for a in &lists {
            for b1 in &lists {
                for b2 in &lists {
                    let v = restart_case(ctx, a, b1, b2);
                    ctx.report(v);
                    n += 1;
                }
            }
        }
        ctx.flush_local();
        ctx.subspace("peer returns with another cipher list while the initiator's handshake object lingers (5 x 5 x 5 lists): whatever is accepted must follow the new negotiation", n, true);
    }

    // configuration names
    let names: [(&str, Option<u8>); 14] = [
        ("UNENCRYPTED", None), ("NONE", None), ("PLAIN", None),
        ("AES128", Some(1)), ("AES128_GCM", Some(1)), ("AES_128", Some(1)), ("AES_128_GCM", Some(1)),
        ("AES256", Some(2)), ("AES256_GCM", Some(2)), ("AES_256", Some(2)), ("AES_256_GCM", Some(2)),
        ("CHACHA", Some(3)), ("CHACHA20", Some(3)), ("CHACHA20_POLY1305", Some(3)),
    ];
    let mut rng = ctx.rng("names", 0);
    for (name, id) in names {
        for k in 0..40 {
            ctx.eval();
            let cased: String = name.chars().map(|ch| if (rng.next_u32() >> 7) & 1 == 1 || k == 0 { ch.to_ascii_lowercase() } else { ch }).collect();
            let r = Crypto::parse_algorithms(&[cased.clone()]);
            let ok = match (&r, id) {
                (Ok((true, l)), None) => l.is_empty(),
                (Ok((false, l)), Some(id)) => l.len() == 1 && l[0] == algo_of(id),
                _ => false,
            };
            if !ok {
                ctx.violation(Viol::new("algorithm-name-not-parsed", format!("{:?} not parsed as documented", cased), json!({"kind": "name", "name": cased})));
            }
        }
    }
    ctx.eval();
    match Crypto::parse_algorithms(&[]) {
        Ok((false, l)) if l.len() == 3 && (1..=3u8).all(|i| l.contains(&algo_of(i))) => {}
        other => {
            ctx.violation(Viol::new("default-algorithms", format!("default is not the three ciphers without plain: {:?}", other.map(|(p, l)| (p, l.len()))), json!({"kind": "name", "name": ""})));
        }
    }
    ctx.subspace("documented algorithm names x 40 random letter-case variants + default", 14 * 40 + 1, true);
}

pub fn replay(ctx: &Ctx, case: &Value) {
    if case["kind"].as_str() == Some("restart") {
        if let (Ok(a), Ok(b1), Ok(b2)) = (serde_json::from_value::<Adv>(case["a"].clone()), serde_json::from_value::<Adv>(case["b1"].clone()), serde_json::from_value::<Adv>(case["b2"].clone())) {
            for _ in 0..4 {
                let v = restart_case(ctx, &a, &b1, &b2);
                ctx.report(v);
            }
        }
        return;
    }
    match case["kind"].as_str() {
        Some("negotiation") => {
            if let Ok(c) = serde_json::from_value::<Case>(case["case"].clone()) {
                for _ in 0..4 {
                    let (v, _) = run_case(ctx, &c);
                    ctx.report(v);
                }
            }
        }
        Some("negotiation-pair") => {
            if let (Ok(c1), Ok(c2)) = (serde_json::from_value::<Case>(case["first"].clone()), serde_json::from_value::<Case>(case["second"].clone())) {
                let (v1, o1) = run_case(ctx, &c1);
                let (v2, o2) = run_case(ctx, &c2);
                let clean = v1.is_empty() && v2.is_empty();
                ctx.report(v1);
                ctx.report(v2);
                if clean && o1 != o2 {
                    ctx.violation(Viol::new("outcome-depends-on-list-order-or-initiator", format!("{} vs {}", o1, o2), case.clone()));
                }
            }
        }
        Some("name") => {
            ctx.eval();
        }
        _ => {}
    }
}
