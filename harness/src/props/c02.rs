//! C02 - payload travels sealed: confidential, tamper-evident, delivered byte-identical.
//! PC level on real CryptoCore pairs: round trip for every length / offset / cipher, every bit flip
//! and truncation of short datagrams, reflection, cross-connection; node level in `node_level::c02_node`.

use crate::engine::{hex, unhex, Ctx, Viol};
use crate::props::c03::algo;
use crate::sim::catch;
use proptest::prelude::*;
use serde_json::{json, Value};
use vpncloud::crypto::verif::{create_dummy_pair, CryptoCore};
use vpncloud::util::MsgBuffer;

fn payload_of(len: usize, seed: u64) -> Vec<u8> {
    // high-entropy, deterministic
    let mut x = seed.wrapping_mul(0x9e3779b97f4a7c15) | 1;
    (0..len)
        .map(|_| {
            x ^= x << 13;
            x ^= x >> 7;
            x ^= x << 17;
            (x >> 24) as u8
        })
        .collect()
}

fn seal(core: &mut CryptoCore, payload: &[u8], offset: usize) -> Vec<u8> {
    let mut buf = Box::new(MsgBuffer::new(offset));
    buf.set_length(payload.len());
    buf.message_mut().copy_from_slice(payload);
    core.encrypt(&mut buf);
    buf.message().to_vec()
}

fn open(core: &mut CryptoCore, wire: &[u8], offset: usize) -> Result<Result<Vec<u8>, String>, crate::sim::PanicInfo> {
    catch(|| {
        let mut buf = Box::new(MsgBuffer::new(offset));
        buf.set_length(wire.len());
        buf.message_mut().copy_from_slice(wire);
        core.decrypt(&mut buf).map(|_| buf.message().to_vec()).map_err(|e| e.to_string())
    })
}

fn contains_window(hay: &[u8], needle: &[u8], w: usize) -> bool {
    if needle.len() < w {
        return false;
    }
    needle.windows(w).any(|win| hay.windows(w).any(|h| h == win))
}

/// position class of a wire byte index
fn pos_class(i: usize, len: usize) -> &'static str {
    if i == 0 {
        "key-id"
    } else if i < 8 {
        "counter"
    } else if i >= len - 16 {
        "tag"
    } else {
        "ciphertext"
    }
}

pub fn roundtrip_case(ctx: &Ctx, cipher: u8, len: usize, offset: usize, seed: u64) -> Vec<Viol> {
    ctx.eval();
    let cj = || json!({"kind": "roundtrip", "cipher": cipher, "len": len, "offset": offset, "seed": seed});
    let mut out = vec![];
    let (mut a, mut b) = create_dummy_pair(algo(cipher));
    let payload = payload_of(len, seed);
    let wire = match catch(|| seal(&mut a, &payload, offset)) {
        Ok(w) => w,
        Err(p) => {
            out.push(Viol::new(format!("seal-{}", p.sig()), format!("encrypt panicked for length {} offset {}: {}", len, offset, p.msg), cj()));
            return out;
        }
    };
    if wire.len() != len + 24 {
        out.push(Viol::new("envelope-size", format!("sealed length {} for payload {}", wire.len(), len), cj()));
    }
    if len >= 8 && contains_window(&wire, &payload, 8) {
        out.push(Viol::new("cleartext-on-wire", format!("an 8-byte window of the payload appears in the sealed datagram (len {})", len), cj()));
    }
    match open(&mut b, &wire, offset) {
        Err(p) => out.push(Viol::new(format!("open-{}", p.sig()), format!("decrypt panicked: {}", p.msg), cj())),
        Ok(Err(e)) => out.push(Viol::new("genuine-datagram-rejected", format!("genuine datagram (len {}, offset {}) rejected: {}", len, offset, e), cj())),
        Ok(Ok(p)) => {
            if p != payload {
                out.push(Viol::new("payload-not-byte-identical", format!("opened payload differs (len {})", len), cj()));
            }
        }
    }
    // reflection: the sender must not open its own datagram
    match open(&mut a, &wire, offset) {
        Ok(Ok(_)) => out.push(Viol::new("reflection-accepted", "a datagram reflected to its own sender opened".to_string(), cj())),
        Err(p) => out.push(Viol::new(format!("open-{}", p.sig()), format!("decrypt panicked on reflection: {}", p.msg), cj())),
        _ => {}
    }
    ctx.nontrivial(&("rt", cipher, len.min(400), offset));
    out
}

/// every single-bit flip and every truncation of one sealed datagram
pub fn tamper_case(ctx: &Ctx, cipher: u8, len: usize, seed: u64, positions: Option<&[usize]>) -> Vec<Viol> {
    let mut out = vec![];
    let (mut a, mut b) = create_dummy_pair(algo(cipher));
    let payload = payload_of(len, seed);
    let wire = seal(&mut a, &payload, 100);
    let all: Vec<usize> = (0..wire.len() * 8).collect();
    let bits: &[usize] = positions.unwrap_or(&all);
    for bitpos in bits {
        let bitpos = *bitpos % (wire.len() * 8);
        ctx.eval();
        let mut w = wire.clone();
        w[bitpos / 8] ^= 1 << (bitpos % 8);
        let cls = pos_class(bitpos / 8, wire.len());
        let cj = || json!({"kind": "tamper", "cipher": cipher, "len": len, "seed": seed, "bit": bitpos});
        match open(&mut b, &w, 100) {
            Err(p) => out.push(Viol::new(format!("open-{}", p.sig()), format!("decrypt panicked on altered datagram: {}", p.msg), cj())),
            Ok(Ok(_)) => {
                let sig = if cls == "key-id" && bitpos % 8 >= 2 { "altered-key-id-high-bits-accepted".to_string() } else { format!("altered-{}-accepted", cls) };
                out.push(Viol::new(
                    sig,
                    format!("datagram with bit {} of byte {} ({}) flipped was accepted (payload length {})", bitpos % 8, bitpos / 8, cls, len),
                    cj(),
                ));
            }
            Ok(Err(_)) => {}
        }
        ctx.nontrivial(&("flip", cipher, len, bitpos));
        ctx.class(&format!("tamper:{}", cls));
    }
    if positions.is_none() {
        for cut in 0..wire.len() {
            ctx.eval();
            let cj = || json!({"kind": "truncate", "cipher": cipher, "len": len, "seed": seed, "cut": cut});
            match open(&mut b, &wire[..cut], 100) {
                Err(p) => out.push(Viol::new(
                    format!("truncated-{}", p.sig()),
                    format!("decrypt panicked on a datagram truncated to {} bytes: {} at {}", cut, p.msg, p.loc),
                    cj(),
                )),
                Ok(Ok(_)) => out.push(Viol::new("truncated-accepted", format!("datagram truncated to {} of {} bytes accepted", cut, wire.len()), cj())),
                Ok(Err(_)) => {}
            }
            ctx.nontrivial(&("cut", cipher, len, cut));
            ctx.class("tamper:truncation");
        }
    }
    // the genuine datagram is still accepted afterwards (rejections left no state behind)
    ctx.eval();
    match open(&mut b, &wire, 100) {
        Ok(Ok(p)) if p == payload => {}
        other => out.push(Viol::new(
            "genuine-datagram-rejected-after-tampered-ones",
            format!("after the altered copies the genuine datagram no longer opens: {:?}", other.map(|r| r.map(|p| p.len()))),
            json!({"kind": "tamper", "cipher": cipher, "len": len, "seed": seed, "bit": 0}),
        )),
    }
    out
}

/// datagrams an outsider can fabricate without any secret: sealed under guessable keys (all-zero, all-ones,
/// repeated bytes, counting bytes) for every key id, both nonce halves and counters around the sender's
pub fn forge_case(ctx: &Ctx, cipher: u8, rotations: u8) -> Vec<Viol> {
    use ring::aead::{LessSafeKey, UnboundKey};
    let mut out = vec![];
    let al = algo(cipher);
    let (mut a, mut b) = create_dummy_pair(al);
    // a genuine datagram tells the outsider where the counters are
    let genuine = seal(&mut a, b"genuine", 16);
    let _ = open(&mut b, &genuine, 16);
    for r in 0..rotations {
        let kd: Vec<u8> = (0..al.key_len()).map(|i| (i as u8).wrapping_mul(29).wrapping_add(r * 7 + 3)).collect();
        a.rotate_key(LessSafeKey::new(UnboundKey::new(al, &kd).unwrap()), r as u64 + 1, true);
        b.rotate_key(LessSafeKey::new(UnboundKey::new(al, &kd).unwrap()), r as u64 + 1, false);
    }
    let mut ctr = [0u8; 8];
    ctr[1..].copy_from_slice(&genuine[1..8]);
    let base = u64::from_be_bytes(ctr);
    let guesses: Vec<Vec<u8>> = vec![
        vec![0u8; al.key_len()],
        vec![0xffu8; al.key_len()],
        vec![0x01u8; al.key_len()],
        (0..al.key_len() as u8).collect(),
        b"vpncloudVPNCLOUDvpncl0udVpnCloud"[..al.key_len()].to_vec(),
    ];
    for (gi, g) in guesses.iter().enumerate() {
        let key = LessSafeKey::new(UnboundKey::new(al, g).unwrap());
        for key_id in 0..4u8 {
            for half in [0u8, 0x80] {
                for delta in [1u64, 1000, 1 << 40] {
                    ctx.eval();
                    let c = (base.wrapping_add(delta)) & 0x00ff_ffff_ffff_ffff;
                    let mut nonce = [0u8; 12];
                    nonce[0] = half;
                    nonce[5..].copy_from_slice(&c.to_be_bytes()[1..]);
                    let mut body = vec![0u8; 1];
                    body.extend_from_slice(b"forged payload");
                    let tag = key
                        .seal_in_place_separate_tag(ring::aead::Nonce::assume_unique_for_key(nonce), ring::aead::Aad::empty(), &mut body)
                        .unwrap();
                    let mut wire = vec![key_id];
                    wire.extend_from_slice(&nonce[5..]);
                    wire.extend_from_slice(&body);
                    wire.extend_from_slice(tag.as_ref());
                    for (end, core) in [("receiver", &mut b), ("sender", &mut a)] {
                        if let Ok(Ok(_)) = open(core, &wire, 16) {
                            out.push(Viol::new(
                                "forged-datagram-under-guessable-key-accepted",
                                format!("a datagram sealed by an outsider under guessable key #{} with key id {} and nonce half {:02x} opened at the {} ({} rotations)", gi, key_id, half, end, rotations),
                                json!({"kind": "forge", "cipher": cipher, "rotations": rotations}),
                            ));
                        }
                    }
                    ctx.nontrivial(&("forge", cipher, rotations, gi, key_id, half, delta));
                }
            }
        }
    }
    out
}

pub fn cross_case(ctx: &Ctx, cipher: u8, len: usize) -> Vec<Viol> {
    let mut out = vec![];
    let mut pairs: Vec<(CryptoCore, CryptoCore)> = (0..3).map(|_| create_dummy_pair(algo(cipher))).collect();
    for x in 0..3 {
        for y in 0..3 {
            if x == y {
                continue;
            }
            ctx.eval();
            let payload = payload_of(len, (x * 3 + y) as u64);
            let wire = seal(&mut pairs[x].0, &payload, 16);
            for (end, name) in [(0, "sender side"), (1, "receiver side")] {
                let core = if end == 0 { &mut pairs[y].0 } else { &mut pairs[y].1 };
                if let Ok(Ok(_)) = open(core, &wire, 16) {
                    out.push(Viol::new(
                        "cross-connection-accepted",
                        format!("a datagram sealed for connection {} opened on connection {} ({})", x, y, name),
                        json!({"kind": "cross", "cipher": cipher, "len": len}),
                    ));
                }
            }
            ctx.nontrivial(&("cross", cipher, len, x, y));
        }
    }
    out
}

pub fn run(ctx: &Ctx) {
    ctx.rule(
        "PC level (real CryptoCore pairs, fresh per case): round trip for every payload length 0..=N and sampled \
         lengths up to 9000 x 3 ciphers x buffer offsets {8,9,16,100} incl. reflection to the sender and an 8-byte \
         cleartext-window search; for datagrams with payload 0..=40 every single-bit flip and every truncation \
         (exhaustive), sampled bit positions for longer ones; every ordered pair of 3 connections for \
         cross-injection. Node level: meshes of real nodes, wire capture searched for cleartext of payloads, claims \
         and node information, altered datagrams must not reach the interface. Non-trivial: every case (distinct by \
         cipher, length class, offset / bit position / truncation length).",
    );
    let maxlen: usize = ctx.tier.pick(300, 2048);
    let offsets = [8usize, 9, 16, 100];
    ctx.par_range((maxlen as u64 + 1) * 3, |_, i| {
        let cipher = (i % 3) as u8;
        let len = (i / 3) as usize;
        for off in offsets {
            let v = roundtrip_case(ctx, cipher, len, off, i);
            ctx.report(v);
        }
    });
    ctx.subspace(&format!("round trip: every length 0..={} x 3 ciphers x 4 offsets", maxlen), (maxlen as u64 + 1) * 12, true);
    let mut rng = ctx.rng("long", 0);
    let long: Vec<usize> = (0..40).map(|_| maxlen + 1 + (rng.next_u32() as usize % (9000 - maxlen))).chain([9000, 8999, 1400, 1500, 65000]).collect();
    ctx.par_items(&long, |_, len| {
        for cipher in 0..3 {
            let v = roundtrip_case(ctx, cipher, *len, 100, *len as u64);
            ctx.report(v);
        }
    });
    ctx.subspace("round trip: 45 lengths up to 9000 (and 65000) x 3 ciphers", long.len() as u64 * 3, false);
    ctx.sample("roundtrip", || json!({"cipher": "aes256", "len": 1400, "offset": 100}));

    // tampering: exhaustive for short datagrams
    let short_max: usize = ctx.tier.pick(40, 120);
    ctx.par_range((short_max as u64 + 1) * 3, |_, i| {
        let v = tamper_case(ctx, (i % 3) as u8, (i / 3) as usize, i, None);
        ctx.report(v);
    });
    ctx.subspace(&format!("payload 0..={} x 3 ciphers: every single-bit flip and every truncation", short_max), (short_max as u64 + 1) * 3, true);
    ctx.sample("tamper", || json!({"cipher": "chacha20", "len": 5, "all_bits": 29 * 8, "all_truncations": 29}));
    // sampled positions for longer datagrams
    let n: u32 = ctx.tier.pick(2_000, 40_000);
    ctx.proptest(
        "pt-tamper",
        n,
        || (0u8..3, 41usize..9000, any::<u64>(), proptest::collection::vec(any::<usize>(), 1..24)),
        |(cipher, len, seed, bits)| {
            let mut b: Vec<usize> = bits.clone();
            b.extend([0, 1, 2, 7, 8, 63, 64]); // header bits always included
            tamper_case(ctx, *cipher, *len, *seed, Some(&b))
        },
    );
    ctx.subspace("proptest: longer datagrams (41..9000) with sampled bit positions + all header-boundary bits", n as u64, false);

    for cipher in 0..3 {
        for len in [0usize, 1, 16, 100, 1400] {
            let v = cross_case(ctx, cipher, len);
            ctx.report(v);
        }
    }
    ctx.subspace("cross-connection: every ordered pair of 3 connections x both ends x 3 ciphers x 5 lengths", 3 * 5 * 6 * 2, true);

    for cipher in 0..3 {
        for rotations in [0u8, 1, 2, 5] {
            let v = forge_case(ctx, cipher, rotations);
            ctx.report(v);
        }
    }
    ctx.subspace("outsider forgeries sealed under 5 guessable keys x 4 key ids x 2 nonce halves x 3 counters x both ends x 3 ciphers x {0,1,2,5} rotations", 3 * 4 * 5 * 4 * 2 * 3, true);

    crate::props::node_level::c02_node(ctx);
}

pub fn replay(ctx: &Ctx, case: &Value) {
    let g = |k: &str| case[k].as_u64().unwrap_or(0);
    let v = match case["kind"].as_str() {
        Some("roundtrip") => roundtrip_case(ctx, g("cipher") as u8, g("len") as usize, g("offset") as usize, g("seed")),
        Some("tamper") => tamper_case(ctx, g("cipher") as u8, g("len") as usize, g("seed"), Some(&[g("bit") as usize])),
        Some("truncate") => tamper_case(ctx, g("cipher") as u8, g("len") as usize, g("seed"), None),
        Some("cross") => cross_case(ctx, g("cipher") as u8, g("len") as usize),
        Some("forge") => forge_case(ctx, g("cipher") as u8, g("rotations") as u8),
        Some(_) => {
            crate::props::node_level::replay(ctx, case);
            vec![]
        }
        None => vec![],
    };
    ctx.report(v);
    let _ = (hex(&[]), unhex(""));
}
