use vverif::engine::{Ctx, Tier};

struct StopOnDrop<'a>(&'a std::sync::atomic::AtomicBool);
impl Drop for StopOnDrop<'_> {
    fn drop(&mut self) {
        self.0.store(true, std::sync::atomic::Ordering::SeqCst);
    }
}

fn usage() -> ! {
    eprintln!("usage: vcheck <C01..C20> [--tier quick|thorough] [--seed N] [--replay FILE]");
    std::process::exit(2)
}

fn main() {
    let args: Vec<String> = std::env::args().collect();
    if args.len() < 2 {
        usage()
    }
    if args[1] == "--dump-corpus" {
        // writes the generated seed inputs of every fuzz target to <VERIF_HOME>/corpus/<target>/
        vverif::sim::install_panic_hook();
        vverif::sim::thread_setup();
        for t in ["decode_codecs", "beacon_text", "dissect", "node_datagrams"] {
            let dir = format!("{}/corpus/{}", vverif::engine::verif_dir(), t);
            std::fs::create_dir_all(&dir).expect("corpus dir");
            for (i, s) in vverif::targets::seed_inputs(t).iter().enumerate() {
                std::fs::write(format!("{}/seed-{:03}", dir, i), s).expect("write");
            }
        }
        return;
    }
    let id = args[1].clone();
    let mut tier = match std::env::var("VERIF_TIER").ok().as_deref() {
        Some("thorough") => Tier::Thorough,
        _ => Tier::Quick,
    };
    let mut tier_set = false;
    let mut seed: u64 = std::env::var("VERIF_SEED").ok().and_then(|s| s.trim().parse::<i64>().ok()).map(|v| v as u64).unwrap_or(1);
    let mut replay: Option<String> = None;
    let mut i = 2;
    while i < args.len() {
        match args[i].as_str() {
            "--tier" => {
                i += 1;
                tier = match args.get(i).map(|s| s.as_str()) {
                    Some("quick") => Tier::Quick,
                    Some("thorough") => Tier::Thorough,
                    _ => usage(),
                };
                tier_set = true;
            }
            "--seed" => {
                i += 1;
                seed = args.get(i).and_then(|s| s.parse::<i64>().ok()).map(|v| v as u64).unwrap_or_else(|| usage());
            }
            "--replay" => {
                i += 1;
                replay = Some(args.get(i).cloned().unwrap_or_else(|| usage()));
            }
            _ => usage(),
        }
        i += 1;
    }
    let _ = tier_set;
    vverif::sim::install_panic_hook();
    vverif::sim::thread_setup();
    let code = match replay {
        None => {
            let ctx = Ctx::new(&id, tier, seed, false);
            let done = std::sync::atomic::AtomicBool::new(false);
            let r = std::thread::scope(|s| {
                s.spawn(|| ctx.watchdog(&done, "exploration"));
                let _stop = StopOnDrop(&done); // also when the run unwinds: the scope must not wait for the watchdog forever
                vverif::props::run(&id, &ctx)
            });
            match r {
                Some(level) => ctx.finish(level),
                None => {
                    eprintln!("unknown property {}", id);
                    2
                }
            }
        }
        Some(path) => {
            let text = match std::fs::read_to_string(&path) {
                Ok(t) => t,
                Err(e) => {
                    eprintln!("cannot read replay file {}: {}", path, e);
                    std::process::exit(2)
                }
            };
            let v: serde_json::Value = match serde_json::from_str(&text) {
                Ok(v) => v,
                Err(e) => {
                    eprintln!("replay file {} is not JSON: {}", path, e);
                    std::process::exit(2)
                }
            };
            std::env::set_var("VCHECK_REPLAY_PATH", &path);
            let ctx = Ctx::new(&id, tier, seed, true);
            let case = v.get("case").cloned().unwrap_or(v);
            let done = std::sync::atomic::AtomicBool::new(false);
            let r = std::thread::scope(|s| {
                s.spawn(|| ctx.watchdog(&done, "exploration"));
                let _stop = StopOnDrop(&done);
                vverif::props::replay(&id, &ctx, &case)
            });
            match r {
                Some(level) => ctx.finish(level),
                None => {
                    eprintln!("unknown property {}", id);
                    2
                }
            }
        }
    };
    std::process::exit(code)
}
