//! vverif: property-based testing / fuzzing harness deciding the 20 VpnCloud properties
//! (see /verif/DESIGN.md). Every check runs the real code of /repo, linked as a library.
pub mod engine;
pub mod fuzzdrv;
pub mod sim;
pub mod targets;
pub mod props;
