//! Shared machinery: per-thread setup of the repository's thread-local mocks, panic capture.

use std::cell::RefCell;
use std::panic::{catch_unwind, AssertUnwindSafe};
use vpncloud::util::MockTimeSource;

/// Mock time never starts at 0: the tables use expiry 0 as "dead" marker and a real node never
/// runs at boot-time second 0 (DESIGN.md section 6).
pub const T0: i64 = 1000;

/// Per-thread initialisation of the thread-local state the repository's mocks use.
pub fn thread_setup() {
    MockTimeSource::set_time(T0);
    vpncloud::net::MockSocket::set_nat(false);
    vpncloud::crypto::verif::verif_force_speeds(Some([600.0, 500.0, 400.0]));
    vpncloud::crypto::verif::verif_seal_log_enable(false);
}

#[derive(Clone, Debug, Default)]
pub struct PanicInfo {
    pub msg: String,
    pub loc: String,
}

thread_local! {
    static LAST_PANIC: RefCell<Option<PanicInfo>> = const { RefCell::new(None) };
    /// nesting depth of `catch` on this thread: a panic outside of it is a defect of the harness itself and is printed
    static CATCH_DEPTH: std::cell::Cell<u32> = const { std::cell::Cell::new(0) };
}

/// Silent, capturing panic hook (message and location are kept per thread).
pub fn install_panic_hook() {
    std::panic::set_hook(Box::new(|info| {
        let msg = if let Some(s) = info.payload().downcast_ref::<&str>() {
            s.to_string()
        } else if let Some(s) = info.payload().downcast_ref::<String>() {
            s.clone()
        } else {
            "<non-string panic>".to_string()
        };
        let loc = info.location().map(|l| format!("{}:{}", l.file(), l.line())).unwrap_or_default();
        if CATCH_DEPTH.with(|d| d.get()) == 0 {
            eprintln!("HARNESS PANIC (outside any guarded call; infrastructure problem, not a verdict): {} at {}", msg, loc);
        }
        LAST_PANIC.with(|p| *p.borrow_mut() = Some(PanicInfo { msg, loc }));
    }));
}

/// Runs f, converting an unwind into the captured panic information.
pub fn catch<T>(f: impl FnOnce() -> T) -> Result<T, PanicInfo> {
    LAST_PANIC.with(|p| *p.borrow_mut() = None);
    CATCH_DEPTH.with(|d| d.set(d.get() + 1));
    let r = catch_unwind(AssertUnwindSafe(f));
    CATCH_DEPTH.with(|d| d.set(d.get().saturating_sub(1)));
    match r {
        Ok(v) => Ok(v),
        Err(_) => Err(LAST_PANIC.with(|p| p.borrow_mut().take()).unwrap_or_default()),
    }
}

impl PanicInfo {
    /// signature used for finding identification: file name + message head (line numbers move)
    pub fn sig(&self) -> String {
        let file = self.loc.rsplit('/').next().unwrap_or("").split(':').next().unwrap_or("");
        // message head, cut at the first quote/backtick (input-dependent text) with digits masked
        let cut = self.msg.split(|c| c == '`' || c == '"').next().unwrap_or("");
        let head: String = cut
            .chars()
            .take(48)
            .map(|c| if c.is_whitespace() { '_' } else if c.is_ascii_digit() { '#' } else { c })
            .collect();
        // numbers of different width must give the same signature
        let mut head2 = String::new();
        for c in head.chars() {
            if c == '#' && head2.ends_with('#') {
                continue;
            }
            head2.push(c);
        }
        let head = head2;
        format!("panic@{}:{}", file, head)
    }
}

// ---------------------------------------------------------------------------------------
// PeerCrypto-level helpers ("PC level": real handshake objects, no node)

use smallvec::smallvec;
use vpncloud::crypto::{Config as CryptoConfig, Crypto, MessageResult, PeerCrypto};
use vpncloud::messages::NodeInfo;
use vpncloud::types::NodeId;
use vpncloud::util::MsgBuffer;

pub const SPACE: usize = 100;

pub fn node_id(n: u8) -> NodeId {
    let mut id = [0u8; 16];
    id[0] = n;
    id[15] = n ^ 0x5a;
    id[7] = 0xc3;
    id
}

/// A distinctive NodeInfo payload for node n.
pub fn node_info(n: u8) -> NodeInfo {
    NodeInfo {
        node_id: node_id(n),
        peers: smallvec![],
        claims: smallvec![format!("10.{}.0.0/16", n).parse().unwrap()],
        peer_timeout: Some(300 + n as u16),
        addrs: smallvec![format!("[::]:{}", 1000 + n as u16).parse().unwrap()],
    }
}

/// What a node with advertised IPv4 addresses, a few peers and several claims offers in its handshake: address lists
/// that mix the families in every order (the wire format regroups them: IPv6 first), peers with and without node id,
/// IPv4 / IPv6 / MAC claims. PairSim offers this and expects its normalised form at the other end.
pub fn rich_node_info(n: u8) -> NodeInfo {
    use vpncloud::messages::PeerInfo;
    let a = |s: String| -> std::net::SocketAddr { s.parse().unwrap() };
    NodeInfo {
        node_id: node_id(n),
        peers: smallvec![
            PeerInfo { node_id: Some(node_id(n.wrapping_add(40))), addrs: smallvec![a(format!("192.0.2.{}:3210", n)), a(format!("[2001:db8::{:x}]:3210", n)), a(format!("198.51.100.{}:4000", n))] },
            PeerInfo { node_id: None, addrs: smallvec![a(format!("[fd00::{:x}]:1", n)), a("[::ffff:10.9.8.7]:3210".to_string())] },
        ],
        claims: smallvec![format!("10.{}.0.0/16", n).parse().unwrap(), format!("2001:db8:{:x}::/48", n).parse().unwrap(), format!("02:00:00:00:00:{:02x}/48", n).parse().unwrap()],
        peer_timeout: Some(300 + n as u16),
        addrs: smallvec![a(format!("203.0.113.{}:{}", n, 1000 + n as u16)), a(format!("[::]:{}", 1000 + n as u16)), a(format!("10.0.0.{}:{}", n, 1000 + n as u16)), a(format!("[2001:db8:1::{:x}]:5", n))],
    }
}

pub fn new_buf() -> Box<MsgBuffer> {
    Box::new(MsgBuffer::new(SPACE))
}

#[derive(Debug)]
pub enum HsOutcome {
    /// both ends completed; payloads received by (a, b)
    Done(Box<NodeInfo>, Box<NodeInfo>),
    /// some step returned an error (step index, error text)
    Failed(usize, String),
}

/// In-order, loss-free 3-way handshake a -> b. Does not panic on errors.
pub fn simple_handshake(a: &mut PeerCrypto<NodeInfo>, b: &mut PeerCrypto<NodeInfo>) -> HsOutcome {
    let mut buf = new_buf();
    if let Err(e) = a.initialize(&mut buf) {
        return HsOutcome::Failed(0, e.to_string());
    }
    match b.handle_message(&mut buf) {
        Ok(MessageResult::Reply) => {}
        Ok(o) => return HsOutcome::Failed(1, format!("unexpected result {:?}", o)),
        Err(e) => return HsOutcome::Failed(1, e.to_string()),
    }
    let from_b = match a.handle_message(&mut buf) {
        Ok(MessageResult::InitializedWithReply(p)) => p,
        Ok(o) => return HsOutcome::Failed(2, format!("unexpected result {:?}", o)),
        Err(e) => return HsOutcome::Failed(2, e.to_string()),
    };
    let from_a = match b.handle_message(&mut buf) {
        Ok(MessageResult::InitializedWithReply(p)) => {
            // rotation reply goes back to a
            match a.handle_message(&mut buf) {
                Ok(MessageResult::None) => {}
                Ok(o) => return HsOutcome::Failed(4, format!("unexpected result {:?}", o)),
                Err(e) => return HsOutcome::Failed(4, e.to_string()),
            }
            p
        }
        Ok(MessageResult::Initialized(p)) => p,
        Ok(o) => return HsOutcome::Failed(3, format!("unexpected result {:?}", o)),
        Err(e) => return HsOutcome::Failed(3, e.to_string()),
    };
    HsOutcome::Done(Box::new(from_b), Box::new(from_a))
}

pub fn crypto_from(cfg: &CryptoConfig, id: NodeId) -> Result<Crypto, String> {
    Crypto::new(id, cfg).map_err(|e| e.to_string())
}

// ---------------------------------------------------------------------------------------
// Counting allocator: records the largest single request per thread (C16: no oversized allocation)

use std::alloc::{GlobalAlloc, Layout, System};
use std::cell::Cell;

pub struct CountingAlloc;

thread_local! {
    static MAX_ALLOC: Cell<usize> = const { Cell::new(0) };
}

unsafe impl GlobalAlloc for CountingAlloc {
    unsafe fn alloc(&self, layout: Layout) -> *mut u8 {
        let _ = MAX_ALLOC.try_with(|m| {
            if layout.size() > m.get() {
                m.set(layout.size())
            }
        });
        System.alloc(layout)
    }
    unsafe fn dealloc(&self, ptr: *mut u8, layout: Layout) {
        System.dealloc(ptr, layout)
    }
    unsafe fn alloc_zeroed(&self, layout: Layout) -> *mut u8 {
        let _ = MAX_ALLOC.try_with(|m| {
            if layout.size() > m.get() {
                m.set(layout.size())
            }
        });
        System.alloc_zeroed(layout)
    }
    unsafe fn realloc(&self, ptr: *mut u8, layout: Layout, new_size: usize) -> *mut u8 {
        let _ = MAX_ALLOC.try_with(|m| {
            if new_size > m.get() {
                m.set(new_size)
            }
        });
        System.realloc(ptr, layout, new_size)
    }
}

#[global_allocator]
static GLOBAL: CountingAlloc = CountingAlloc;

/// Runs f and returns (result, largest single allocation request made by this thread meanwhile).
pub fn with_alloc_watch<T>(f: impl FnOnce() -> T) -> (T, usize) {
    MAX_ALLOC.with(|m| m.set(0));
    let r = f();
    let m = MAX_ALLOC.with(|m| m.get());
    (r, m)
}

// ---------------------------------------------------------------------------------------
// NetSim: N real nodes on mock socket / device / clock; the harness owns the network.

use std::collections::{BTreeMap, VecDeque};
use std::net::SocketAddr;
use vpncloud::cloud::GenericCloud;
use vpncloud::config::Config;
use vpncloud::device::MockDevice;
use vpncloud::net::MockSocket;
use vpncloud::payload::Protocol;

pub type Node<P> = GenericCloud<MockDevice, P, MockSocket, MockTimeSource>;

#[derive(Clone, Debug)]
pub struct Datagram {
    pub id: u64,
    pub sent_at: i64,
    pub deliver_at: i64,
    pub src: SocketAddr,
    pub dst: SocketAddr,
    pub data: Vec<u8>,
}

pub struct SimNode<P: Protocol> {
    pub addr: SocketAddr,
    pub node: Node<P>,
    /// long-lived receive buffer, as in `run()` (stale bytes stay behind each datagram)
    pub buf: Box<MsgBuffer>,
    pub dead: bool,
}

/// what the network does with a datagram: list of delivery delays in seconds
/// (empty = lost, [0] = delivered in order, [0, 0] = duplicated, [k] = delayed by k seconds)
pub type Policy = Box<dyn FnMut(&Datagram) -> Vec<i64>>;
/// address rewriting (hair-pin / port forwarding): (src, dst) -> (src', dst')
pub type Rewrite = Box<dyn FnMut(SocketAddr, SocketAddr) -> (SocketAddr, SocketAddr)>;

pub struct NetSim<P: Protocol> {
    pub nodes: Vec<SimNode<P>>,
    pub index: BTreeMap<SocketAddr, usize>,
    pub now: i64,
    pub inflight: VecDeque<Datagram>,
    pub delayed: Vec<Datagram>,
    pub record: bool,
    pub wire_log: Vec<Datagram>,
    pub panics: Vec<(usize, PanicInfo, String)>,
    pub housekeep_errors: Vec<(usize, i64, String)>,
    pub policy: Option<Policy>,
    pub rewrite: Option<Rewrite>,
    pub next_id: u64,
    pub delivered: u64,
    pub lost_unknown_dst: u64,
    /// datagrams addressed to something that is not a simulated node (scripted peers read them here)
    pub stray: Vec<Datagram>,
    /// set when one settle() needed more than `storm_limit` deliveries (datagram storm)
    pub storm: bool,
    /// deliveries per settle() after which the network drops everything in flight (default 20000)
    pub storm_limit: usize,
    pub storms: u64,
}

thread_local! {
    static SIM_V4: std::cell::Cell<bool> = const { std::cell::Cell::new(false) };
}

/// While set (per thread), the simulated network is an IPv4 one: nodes listen on IPv4-mapped addresses (what a
/// dual-stack socket reports for IPv4 peers) instead of native IPv6 ones. Returns the previous setting.
pub fn set_sim_v4(on: bool) -> bool {
    SIM_V4.with(|c| c.replace(on))
}

pub fn sim_v4() -> bool {
    SIM_V4.with(|c| c.get())
}

/// maps a literal IPv6 test address into the address family of the simulated network
pub fn fam(a: SocketAddr) -> SocketAddr {
    match a {
        SocketAddr::V6(v) if sim_v4() && v.ip().to_ipv4_mapped().is_none() => {
            let o = v.ip().octets();
            format!("[::ffff:10.250.{}.{}]:{}", o[14], o[15], v.port()).parse().unwrap()
        }
        _ => a,
    }
}

pub fn sim_addr(n: usize) -> SocketAddr {
    if sim_v4() {
        return format!("[::ffff:10.1.{}.{}]:{}", n / 200, n % 200 + 1, 3210 + n).parse().unwrap();
    }
    format!("[fd00::{:x}]:{}", n + 1, 3210 + n).parse().unwrap()
}

pub fn base_config() -> Config {
    let mut c = Config::default();
    c.crypto.password = Some("test123".to_string());
    c
}

impl<P: Protocol> NetSim<P> {
    pub fn new() -> Self {
        MockTimeSource::set_time(T0);
        NetSim {
            nodes: vec![],
            index: BTreeMap::new(),
            now: T0,
            inflight: VecDeque::new(),
            delayed: vec![],
            record: false,
            wire_log: vec![],
            panics: vec![],
            housekeep_errors: vec![],
            policy: None,
            rewrite: None,
            next_id: 0,
            delivered: 0,
            lost_unknown_dst: 0,
            stray: vec![],
            storm: false,
            storm_limit: 20_000,
            storms: 0,
        }
    }

    pub fn add_node(&mut self, config: &Config, nat: bool) -> usize {
        let n = self.nodes.len();
        self.add_node_at(config, nat, sim_addr(n))
    }

    pub fn add_node_at(&mut self, config: &Config, nat: bool, addr: SocketAddr) -> usize {
        let n = self.nodes.len();
        let mut config = config.clone();
        config.listen = addr.to_string();
        MockSocket::set_nat(nat);
        let mut node = Node::<P>::new(&config, MockSocket::new(addr), MockDevice::new(), None, None);
        node.verif_initialize(); // as run() does before its event loop: own addresses = advertised + socket address
        MockSocket::set_nat(false);
        self.nodes.push(SimNode { addr, node, buf: new_buf(), dead: false });
        self.index.insert(addr, n);
        n
    }

    pub fn addr(&self, i: usize) -> SocketAddr {
        self.nodes[i].addr
    }

    /// the process behind node i is killed and started again with `config` on the same address: fresh node id,
    /// fresh state, no close message; datagrams it had in flight are lost
    pub fn restart_node(&mut self, i: usize, config: &Config, nat: bool) {
        let addr = self.nodes[i].addr;
        let mut config = config.clone();
        config.listen = addr.to_string();
        MockSocket::set_nat(nat);
        let mut node = Node::<P>::new(&config, MockSocket::new(addr), MockDevice::new(), None, None);
        node.verif_initialize();
        MockSocket::set_nat(false);
        self.nodes[i] = SimNode { addr, node, buf: new_buf(), dead: false };
        self.inflight.retain(|d| d.src != addr);
        self.delayed.retain(|d| d.src != addr);
    }

    /// moves everything node i has sent into the network
    pub fn flush(&mut self, i: usize) {
        let src0 = self.nodes[i].addr;
        while let Some((dst0, data)) = self.nodes[i].node.verif_socket().pop_outbound() {
            let (src, dst) = match self.rewrite.as_mut() {
                Some(rw) => rw(src0, dst0),
                None => (src0, dst0),
            };
            let mut d = Datagram { id: self.next_id, sent_at: self.now, deliver_at: self.now, src, dst, data };
            self.next_id += 1;
            if self.record {
                self.wire_log.push(d.clone());
            }
            let fates = match self.policy.as_mut() {
                Some(p) => p(&d),
                None => vec![0],
            };
            for delay in fates {
                d.deliver_at = self.now + delay;
                if delay <= 0 {
                    self.inflight.push_back(d.clone());
                } else {
                    self.delayed.push(d.clone());
                }
            }
        }
    }

    /// hands one datagram to its destination node (socket event under panic capture)
    pub fn deliver(&mut self, d: Datagram) -> bool {
        let i = match self.index.get(&d.dst) {
            Some(i) => *i,
            None => {
                self.lost_unknown_dst += 1;
                if self.stray.len() < 100_000 {
                    self.stray.push(d);
                }
                return false;
            }
        };
        self.deliver_to(i, d.src, d.data)
    }

    pub fn deliver_to(&mut self, i: usize, src: SocketAddr, data: Vec<u8>) -> bool {
        if self.nodes[i].dead {
            return false;
        }
        let n = &mut self.nodes[i];
        if !n.node.verif_socket().put_inbound(src, data.clone()) {
            return false; // filtered by the NAT model of the mock socket
        }
        let r = catch(|| n.node.verif_socket_event(&mut n.buf));
        if let Err(p) = r {
            n.dead = true;
            self.panics.push((i, p, format!("socket event: {} bytes from {}: {}", data.len(), src, crate::engine::hex(&data[..data.len().min(64)]))));
            return false;
        }
        self.delivered += 1;
        self.flush(i);
        true
    }

    /// delivers in-flight datagrams in FIFO order until the network is quiet
    pub fn settle(&mut self) {
        let mut guard = 0;
        while let Some(d) = self.inflight.pop_front() {
            self.deliver(d);
            guard += 1;
            if guard > self.storm_limit {
                // datagrams keep causing datagrams: a loop in the (rewritten) network
                self.storm = true;
                self.storms += 1;
                self.inflight.clear();
                break;
            }
        }
    }

    pub fn housekeep(&mut self, i: usize) {
        if self.nodes[i].dead {
            return;
        }
        let n = &mut self.nodes[i];
        match catch(|| n.node.verif_housekeep()) {
            Err(p) => {
                n.dead = true;
                self.panics.push((i, p, format!("housekeep at t={}", self.now)));
            }
            Ok(Err(e)) => self.housekeep_errors.push((i, self.now, e.to_string())),
            Ok(Ok(())) => {}
        }
        self.flush(i);
    }

    /// one simulated second: clock +1, delayed datagrams that are due, housekeeping of every node, settle
    pub fn tick(&mut self) {
        self.now += 1;
        MockTimeSource::set_time(self.now);
        let now = self.now;
        let mut due: Vec<Datagram> = vec![];
        self.delayed.retain(|d| {
            if d.deliver_at <= now {
                due.push(d.clone());
                false
            } else {
                true
            }
        });
        due.sort_by_key(|d| (d.deliver_at, d.id));
        for d in due {
            self.inflight.push_back(d);
        }
        self.settle();
        for i in 0..self.nodes.len() {
            self.housekeep(i);
        }
        self.settle();
    }

    pub fn run(&mut self, seconds: i64) {
        for _ in 0..seconds {
            self.tick();
        }
    }

    pub fn connect(&mut self, i: usize, to: SocketAddr) {
        let n = &mut self.nodes[i];
        let _ = catch(|| n.node.connect(to));
        self.flush(i);
    }

    /// configured peer, exactly as `run()` does it: connect + add_reconnect_peer
    pub fn configure_peer(&mut self, i: usize, to: SocketAddr) {
        let n = &mut self.nodes[i];
        let s = to.to_string();
        let _ = catch(|| {
            let _ = n.node.connect(&s as &str);
            n.node.add_reconnect_peer(s.clone());
        });
        self.flush(i);
    }

    /// frame/packet read from the interface of node i
    pub fn put_payload(&mut self, i: usize, data: Vec<u8>) {
        if self.nodes[i].dead {
            return;
        }
        let n = &mut self.nodes[i];
        n.node.verif_device().put_inbound(data);
        let mut buf = new_buf();
        if let Err(p) = catch(|| n.node.verif_device_event(&mut buf)) {
            n.dead = true;
            self.panics.push((i, p, "device event".to_string()));
        }
        self.flush(i);
    }

    /// everything node i wrote to its interface since the last call
    pub fn take_iface(&mut self, i: usize) -> Vec<Vec<u8>> {
        let mut v = vec![];
        while let Some(d) = self.nodes[i].node.verif_device().pop_outbound() {
            v.push(d);
        }
        v
    }

    pub fn is_connected(&self, i: usize, j: usize) -> bool {
        let a = self.nodes[j].addr;
        self.nodes[i].node.verif_peers().iter().any(|p| p.addr == a)
    }

    pub fn all_connected(&self) -> bool {
        let n = self.nodes.len();
        (0..n).all(|i| (0..n).all(|j| i == j || self.is_connected(i, j)))
    }

    /// snapshot of the externally relevant state of node i (peers, pending handshakes, routes, own addresses)
    pub fn snapshot(&mut self, i: usize) -> String {
        let n = &mut self.nodes[i];
        let peers: Vec<String> = n.node.verif_peers().iter().map(|p| format!("{}|{}|{}|{}", p.addr, crate::engine::hex(&p.node_id), p.algorithm, p.has_init)).collect();
        let pending = n.node.verif_pending();
        let (claims, cache) = n.node.verif_table().verif_dump();
        let claims: Vec<String> = claims.iter().map(|(p, r, _)| format!("{}>{}", r, p)).collect();
        let cache: Vec<String> = cache.iter().map(|(a, p, _)| format!("{}>{}", a, p)).collect();
        let own = n.node.verif_own_addresses();
        // expiry time, advertised timeout and announced addresses of every peer: only authenticated messages may move them
        let expiry: Vec<String> = n.node.verif_peers().iter().map(|p| format!("{}@{}/{}/{:?}", p.addr, p.timeout, p.peer_timeout, p.addrs)).collect();
        format!("peers={:?} expiry={:?} pending={:?} claims={:?} cache={:?} own={:?}", peers, expiry, pending, claims, cache, own)
    }
}

impl<P: Protocol> Default for NetSim<P> {
    fn default() -> Self {
        Self::new()
    }
}

/// A sealed datagram as a party WITHOUT any secret can fabricate it: envelope (key id, 7 counter bytes, ciphertext,
/// tag) under a guessable key - 0 all-zero, 1 all-ones, 2 all 0x01, 3 counting bytes, 4 the public PBKDF2 salt.
pub fn forge_sealed(cipher: u8, guess: u8, key_id: u8, half: u8, counter: u64, plaintext: &[u8]) -> Vec<u8> {
    use ring::aead::{Aad, LessSafeKey, Nonce, UnboundKey, AES_128_GCM, AES_256_GCM, CHACHA20_POLY1305};
    let al = match cipher % 3 {
        0 => &AES_128_GCM,
        1 => &AES_256_GCM,
        _ => &CHACHA20_POLY1305,
    };
    let kl = al.key_len();
    let g: Vec<u8> = match guess % 5 {
        0 => vec![0u8; kl],
        1 => vec![0xffu8; kl],
        2 => vec![1u8; kl],
        3 => (0..kl as u8).collect(),
        _ => b"vpncloudVPNCLOUDvpncl0udVpnCloud"[..kl].to_vec(),
    };
    let key = LessSafeKey::new(UnboundKey::new(al, &g).unwrap());
    let mut nonce = [0u8; 12];
    nonce[0] = half;
    nonce[5..].copy_from_slice(&(counter & 0x00ff_ffff_ffff_ffff).to_be_bytes()[1..]);
    let mut body = plaintext.to_vec();
    let tag = key.seal_in_place_separate_tag(Nonce::assume_unique_for_key(nonce), Aad::empty(), &mut body).unwrap();
    let mut wire = vec![key_id];
    wire.extend_from_slice(&nonce[5..]);
    wire.extend_from_slice(&body);
    wire.extend_from_slice(tag.as_ref());
    wire
}

/// An Ethernet frame dst(6) src(6) ethertype payload
pub fn eth_frame(dst: [u8; 6], src: [u8; 6], vlan: Option<u16>, payload: &[u8]) -> Vec<u8> {
    let mut f = vec![];
    f.extend_from_slice(&dst);
    f.extend_from_slice(&src);
    if let Some(tci) = vlan {
        f.extend_from_slice(&[0x81, 0x00, (tci >> 8) as u8, tci as u8]);
    }
    f.extend_from_slice(&[0x08, 0x00]);
    f.extend_from_slice(payload);
    f
}

/// A minimal IPv4 packet with given addresses
pub fn ipv4_packet(src: [u8; 4], dst: [u8; 4], payload: &[u8]) -> Vec<u8> {
    let mut p = vec![0x45, 0, 0, 0, 0, 0, 0, 0, 64, 17, 0, 0];
    p.extend_from_slice(&src);
    p.extend_from_slice(&dst);
    p.extend_from_slice(payload);
    let total = p.len() as u16;
    p[2] = (total >> 8) as u8;
    p[3] = total as u8;
    p
}

// ---------------------------------------------------------------------------------------
// PairSim: two real PeerCrypto<NodeInfo> objects and an in-flight multiset owned by the harness

use ring::signature::{Ed25519KeyPair, KeyPair};
use std::sync::Arc;
use vpncloud::crypto::Algorithms;

pub fn keypair_from_seed(seed: u8) -> Arc<Ed25519KeyPair> {
    let mut s = [0u8; 32];
    for (i, b) in s.iter_mut().enumerate() {
        *b = seed.wrapping_mul(31).wrapping_add(i as u8 * 7 + 1);
    }
    Arc::new(Ed25519KeyPair::from_seed_unchecked(&s).unwrap())
}

pub fn pubkey(kp: &Ed25519KeyPair) -> [u8; 32] {
    let mut k = [0u8; 32];
    k.copy_from_slice(kp.public_key().as_ref());
    k
}

pub fn default_algos() -> Algorithms {
    Algorithms {
        algorithm_speeds: smallvec![
            (&ring::aead::AES_128_GCM, 600.0),
            (&ring::aead::AES_256_GCM, 500.0),
            (&ring::aead::CHACHA20_POLY1305, 400.0)
        ],
        allow_unencrypted: false,
    }
}

#[derive(Debug, PartialEq)]
pub enum Event {
    /// side completed the handshake; reply byte 0 (None = no reply), payload node id byte
    Completed { side: usize, reply_first: Option<u8>, payload: Box<NodeInfo> },
    Error { side: usize, fatal: bool, text: String },
    TimedOut { side: usize },
    Data { side: usize, msg_type: u8, payload: Vec<u8> },
}

pub struct EndSpec {
    pub key: Arc<Ed25519KeyPair>,
    pub trusted: Vec<[u8; 32]>,
    pub algos: Algorithms,
    pub id: u8,
}

pub struct PairSim {
    pub ends: [PeerCrypto<NodeInfo>; 2],
    pub payload: [NodeInfo; 2],
    /// (destination side, bytes)
    pub inflight: Vec<(usize, Vec<u8>)>,
    pub events: Vec<Event>,
    pub completed: [u32; 2],
    pub timed_out: [bool; 2],
    pub ticks: [u32; 2],
    /// true when side 0 has the larger salted node-id hash
    pub orientation: bool,
    pub seal_logs: [Vec<vpncloud::crypto::verif::VerifSeal>; 2],
    pub log_seals: bool,
    pub probe_counter: u32,
    /// when set, the receive buffer behind every fed datagram is filled with this byte (stale tail)
    pub tail: Option<u8>,
}

impl PairSim {
    /// Creates the two ends; `orientation` = Some(x) pins which end has the larger salted node-id hash
    /// (the only SystemRandom draw that changes control flow) by re-creating the objects until it holds.
    pub fn new(a: &EndSpec, b: &EndSpec, orientation: Option<bool>) -> Self {
        let mk = |s: &EndSpec| {
            PeerCrypto::new(node_id(s.id), rich_node_info(s.id), s.key.clone(), s.trusted.clone().into_boxed_slice().into(), s.algos.clone())
        };
        let ea = mk(a);
        let mut eb = mk(b);
        let mut guard = 0;
        loop {
            let ha = ea.verif_salted_hash().unwrap();
            let hb = eb.verif_salted_hash().unwrap();
            let o = ha > hb;
            if orientation.map(|w| w == o).unwrap_or(true) || guard > 200 {
                return PairSim {
                    ends: [ea, eb],
                    payload: [crate::props::c16::normalise(&rich_node_info(a.id)), crate::props::c16::normalise(&rich_node_info(b.id))],
                    inflight: vec![],
                    events: vec![],
                    completed: [0, 0],
                    timed_out: [false, false],
                    ticks: [0, 0],
                    orientation: o,
                    seal_logs: [vec![], vec![]],
                    log_seals: false,
                    probe_counter: 0,
                    tail: None,
                };
            }
            eb = mk(b);
            guard += 1;
        }
    }

    pub fn simple(orientation: Option<bool>) -> Self {
        let key = keypair_from_seed(1);
        let t = vec![pubkey(&key)];
        let a = EndSpec { key: key.clone(), trusted: t.clone(), algos: default_algos(), id: 1 };
        let b = EndSpec { key, trusted: t, algos: default_algos(), id: 2 };
        Self::new(&a, &b, orientation)
    }

    fn collect_log(&mut self, side: usize) {
        if self.log_seals {
            let l = vpncloud::crypto::verif::verif_seal_log_take();
            self.seal_logs[side].extend(l);
        }
    }

    pub fn init(&mut self, side: usize) -> bool {
        let mut buf = new_buf();
        match self.ends[side].initialize(&mut buf) {
            Ok(()) => {
                self.inflight.push((1 - side, buf.message().to_vec()));
                true
            }
            Err(_) => false,
        }
    }

    /// hands bytes to `side` as one datagram; returns the result classification
    pub fn feed(&mut self, side: usize, data: &[u8]) -> Result<&'static str, String> {
        let mut buf = new_buf();
        buf.set_length(data.len());
        buf.message_mut().copy_from_slice(data);
        if let Some(t) = self.tail {
            let n = data.len();
            let b = buf.buffer();
            let end = (n + 600).min(b.len());
            b[n..end].fill(t);
        }
        let r = self.ends[side].handle_message(&mut buf);
        self.collect_log(side);
        match r {
            Ok(MessageResult::Reply) => {
                self.inflight.push((1 - side, buf.message().to_vec()));
                Ok("reply")
            }
            Ok(MessageResult::None) => Ok("none"),
            Ok(MessageResult::Message(t)) => {
                self.events.push(Event::Data { side, msg_type: t, payload: buf.message().to_vec() });
                Ok("message")
            }
            Ok(MessageResult::Initialized(p)) => {
                self.completed[side] += 1;
                self.events.push(Event::Completed { side, reply_first: None, payload: Box::new(p) });
                Ok("initialized")
            }
            Ok(MessageResult::InitializedWithReply(p)) => {
                self.completed[side] += 1;
                let first = buf.message().first().copied();
                self.events.push(Event::Completed { side, reply_first: first, payload: Box::new(p) });
                self.inflight.push((1 - side, buf.message().to_vec()));
                Ok("initialized-with-reply")
            }
            Err(e) => {
                let fatal = matches!(e, vpncloud::error::Error::CryptoInitFatal(_));
                let text = e.to_string();
                self.events.push(Event::Error { side, fatal, text: text.clone() });
                Err(text)
            }
        }
    }

    pub fn deliver(&mut self, i: usize) -> Option<Result<&'static str, String>> {
        if i >= self.inflight.len() {
            return None;
        }
        let (side, data) = self.inflight.remove(i);
        Some(self.feed(side, &data))
    }

    pub fn dup(&mut self, i: usize) -> Option<Result<&'static str, String>> {
        if i >= self.inflight.len() {
            return None;
        }
        let (side, data) = self.inflight[i].clone();
        Some(self.feed(side, &data))
    }

    pub fn drop_msg(&mut self, i: usize) -> bool {
        if i < self.inflight.len() {
            self.inflight.remove(i);
            true
        } else {
            false
        }
    }

    pub fn tick(&mut self, side: usize) {
        let mut buf = new_buf();
        self.ticks[side] += 1;
        let r = self.ends[side].every_second(&mut buf);
        self.collect_log(side);
        match r {
            Ok(MessageResult::Reply) => self.inflight.push((1 - side, buf.message().to_vec())),
            Ok(_) => {}
            Err(_) => {
                self.timed_out[side] = true;
                self.events.push(Event::TimedOut { side });
            }
        }
    }

    /// delivers everything in flight, in order, until quiet
    pub fn settle(&mut self) {
        let mut guard = 0;
        while !self.inflight.is_empty() && guard < 1000 {
            self.deliver(0);
            guard += 1;
        }
    }

    /// `from` seals a fresh probe payload; returns the wire bytes
    pub fn seal_probe(&mut self, from: usize) -> Result<(Vec<u8>, Vec<u8>), String> {
        self.probe_counter += 1;
        let payload: Vec<u8> = format!("probe-{}-{}", from, self.probe_counter).into_bytes();
        let mut buf = new_buf();
        buf.set_length(payload.len());
        buf.message_mut().copy_from_slice(&payload);
        let r = self.ends[from].send_message(0, &mut buf).map_err(|e| e.to_string());
        self.collect_log(from);
        r?;
        Ok((buf.message().to_vec(), payload))
    }

    /// `from` seals a probe, the other end must open it to the same bytes
    pub fn probe(&mut self, from: usize) -> Result<(), String> {
        let (wire, payload) = self.seal_probe(from)?;
        let mut buf = new_buf();
        buf.set_length(wire.len());
        buf.message_mut().copy_from_slice(&wire);
        match self.ends[1 - from].handle_message(&mut buf) {
            Ok(MessageResult::Message(0)) => {
                if buf.message() == &payload[..] {
                    Ok(())
                } else {
                    Err("probe opened to different bytes".into())
                }
            }
            Ok(o) => Err(format!("probe gave {:?}", o)),
            Err(e) => Err(format!("probe from side {} failed to open: {}", from, e)),
        }
    }

    pub fn both_ready(&self) -> bool {
        self.completed[0] > 0 && self.completed[1] > 0
    }
}

// ---------------------------------------------------------------------------------------
// Scripted peer: the harness acting as a *trusted* peer of a real node through the public
// PeerCrypto API (genuine handshake, then arbitrary NodeInfo / data / close, and decryption of
// what the node sends).

pub struct ScriptedPeer {
    pub addr: SocketAddr,
    pub crypto: PeerCrypto<NodeInfo>,
    pub info: NodeInfo,
    pub connected: bool,
    /// (time, message type, body) of every sealed message received from the node
    pub received: Vec<(i64, u8, Vec<u8>)>,
    pub node_info_from_peer: Option<NodeInfo>,
}

impl ScriptedPeer {
    pub fn new(addr: SocketAddr, password: &str, info: NodeInfo) -> Self {
        let cfg = CryptoConfig { password: Some(password.to_string()), ..Default::default() };
        let c = Crypto::new(info.node_id, &cfg).expect("scripted peer crypto");
        let copy = NodeInfo { node_id: info.node_id, peers: smallvec![], claims: info.claims.clone(), peer_timeout: info.peer_timeout, addrs: info.addrs.clone() };
        ScriptedPeer { addr, crypto: c.peer_instance(info), info: copy, connected: false, received: vec![], node_info_from_peer: None }
    }

    /// dial node `t` of the simulation and complete the handshake (reliable delivery)
    pub fn connect<P: Protocol>(&mut self, sim: &mut NetSim<P>, t: usize) -> bool {
        let mut buf = new_buf();
        if self.crypto.initialize(&mut buf).is_err() {
            return false;
        }
        sim.deliver_to(t, self.addr, buf.message().to_vec());
        sim.settle();
        self.pump(sim, t);
        self.connected
    }

    /// processes everything the simulation sent to this peer's address; replies are delivered to node t
    pub fn pump<P: Protocol>(&mut self, sim: &mut NetSim<P>, t: usize) {
        let mut guard = 0;
        loop {
            sim.settle();
            let mine: Vec<Datagram> = {
                let (m, rest): (Vec<Datagram>, Vec<Datagram>) = std::mem::take(&mut sim.stray).into_iter().partition(|d| d.dst == self.addr);
                sim.stray = rest;
                m
            };
            if mine.is_empty() || guard > 50 {
                break;
            }
            guard += 1;
            for d in mine {
                let mut buf = new_buf();
                buf.set_length(d.data.len());
                buf.message_mut().copy_from_slice(&d.data);
                match self.crypto.handle_message(&mut buf) {
                    Ok(MessageResult::Reply) => {
                        sim.deliver_to(t, self.addr, buf.message().to_vec());
                    }
                    Ok(MessageResult::InitializedWithReply(info)) => {
                        self.connected = true;
                        self.node_info_from_peer = Some(info);
                        sim.deliver_to(t, self.addr, buf.message().to_vec());
                    }
                    Ok(MessageResult::Initialized(info)) => {
                        self.connected = true;
                        self.node_info_from_peer = Some(info);
                    }
                    Ok(MessageResult::Message(ty)) => self.received.push((sim.now, ty, buf.message().to_vec())),
                    Ok(MessageResult::None) | Err(_) => {}
                }
            }
        }
    }

    /// seals and sends a message of the given type to node t
    pub fn send<P: Protocol>(&mut self, sim: &mut NetSim<P>, t: usize, ty: u8, body: &[u8]) -> bool {
        let mut buf = new_buf();
        buf.set_length(body.len());
        buf.message_mut().copy_from_slice(body);
        if self.crypto.send_message(ty, &mut buf).is_err() {
            return false;
        }
        sim.deliver_to(t, self.addr, buf.message().to_vec());
        self.pump(sim, t);
        true
    }

    pub fn send_node_info<P: Protocol>(&mut self, sim: &mut NetSim<P>, t: usize, info: &NodeInfo) -> bool {
        let mut b = new_buf();
        info.encode(&mut b);
        let body = b.message().to_vec();
        self.send(sim, t, vpncloud::messages::MESSAGE_TYPE_NODE_INFO, &body)
    }

    /// one second of the peer's own housekeeping (handshake retransmission, window ticks, rotation)
    pub fn tick<P: Protocol>(&mut self, sim: &mut NetSim<P>, t: usize) {
        let mut buf = new_buf();
        if let Ok(MessageResult::Reply) = self.crypto.every_second(&mut buf) {
            sim.deliver_to(t, self.addr, buf.message().to_vec());
        }
        self.pump(sim, t);
    }
}
