//! Shared machinery: per-thread setup of the repository's thread-local mocks, panic capture.

use std::cell::RefCell;
use std::panic::{catch_unwind, AssertUnwindSafe};
use vpncloud::util::MockTimeSource;

/// Mock time never starts at 0: the tables use expiry 0 as "dead" marker and a real node never
/// runs at boot-time second 0 (DESIGN.md section 6).
pub const T0: i64 = 1000;

/// Per-thread initialisation of the thread-local state the repository's mocks use.
pub fn thread_setup() {
    MockTimeSource::set_time(T0);
    vpncloud::net::MockSocket::set_nat(false);
    vpncloud::crypto::verif::verif_force_speeds(Some([600.0, 500.0, 400.0]));
    vpncloud::crypto::verif::verif_seal_log_enable(false);
}

#[derive(Clone, Debug, Default)]
pub struct PanicInfo {
    pub msg: String,
    pub loc: String,
}

thread_local! {
    static LAST_PANIC: RefCell<Option<PanicInfo>> = const { RefCell::new(None) };
}

/// Silent, capturing panic hook (message and location are kept per thread).
pub fn install_panic_hook() {
    std::panic::set_hook(Box::new(|info| {
        let msg = if let Some(s) = info.payload().downcast_ref::<&str>() {
            s.to_string()
        } else if let Some(s) = info.payload().downcast_ref::<String>() {
            s.clone()
        } else {
            "<non-string panic>".to_string()
        };
        let loc = info.location().map(|l| format!("{}:{}", l.file(), l.line())).unwrap_or_default();
        LAST_PANIC.with(|p| *p.borrow_mut() = Some(PanicInfo { msg, loc }));
    }));
}

/// Runs f, converting an unwind into the captured panic information.
pub fn catch<T>(f: impl FnOnce() -> T) -> Result<T, PanicInfo> {
    LAST_PANIC.with(|p| *p.borrow_mut() = None);
    match catch_unwind(AssertUnwindSafe(f)) {
        Ok(v) => Ok(v),
        Err(_) => Err(LAST_PANIC.with(|p| p.borrow_mut().take()).unwrap_or_default()),
    }
}

impl PanicInfo {
    /// signature used for finding identification: file name + message head (line numbers move)
    pub fn sig(&self) -> String {
        let file = self.loc.rsplit('/').next().unwrap_or("").split(':').next().unwrap_or("");
        let head: String = self.msg.chars().take(60).map(|c| if c.is_whitespace() { '_' } else { c }).collect();
        format!("panic@{}:{}", file, head)
    }
}
