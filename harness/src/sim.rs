//! Shared machinery: per-thread setup of the repository's thread-local mocks, panic capture.

use std::cell::RefCell;
use std::panic::{catch_unwind, AssertUnwindSafe};
use vpncloud::util::MockTimeSource;

/// Mock time never starts at 0: the tables use expiry 0 as "dead" marker and a real node never
/// runs at boot-time second 0 (DESIGN.md section 6).
pub const T0: i64 = 1000;

/// Per-thread initialisation of the thread-local state the repository's mocks use.
pub fn thread_setup() {
    MockTimeSource::set_time(T0);
    vpncloud::net::MockSocket::set_nat(false);
    vpncloud::crypto::verif::verif_force_speeds(Some([600.0, 500.0, 400.0]));
    vpncloud::crypto::verif::verif_seal_log_enable(false);
}

#[derive(Clone, Debug, Default)]
pub struct PanicInfo {
    pub msg: String,
    pub loc: String,
}

thread_local! {
    static LAST_PANIC: RefCell<Option<PanicInfo>> = const { RefCell::new(None) };
}

/// Silent, capturing panic hook (message and location are kept per thread).
pub fn install_panic_hook() {
    std::panic::set_hook(Box::new(|info| {
        let msg = if let Some(s) = info.payload().downcast_ref::<&str>() {
            s.to_string()
        } else if let Some(s) = info.payload().downcast_ref::<String>() {
            s.clone()
        } else {
            "<non-string panic>".to_string()
        };
        let loc = info.location().map(|l| format!("{}:{}", l.file(), l.line())).unwrap_or_default();
        LAST_PANIC.with(|p| *p.borrow_mut() = Some(PanicInfo { msg, loc }));
    }));
}

/// Runs f, converting an unwind into the captured panic information.
pub fn catch<T>(f: impl FnOnce() -> T) -> Result<T, PanicInfo> {
    LAST_PANIC.with(|p| *p.borrow_mut() = None);
    match catch_unwind(AssertUnwindSafe(f)) {
        Ok(v) => Ok(v),
        Err(_) => Err(LAST_PANIC.with(|p| p.borrow_mut().take()).unwrap_or_default()),
    }
}

impl PanicInfo {
    /// signature used for finding identification: file name + message head (line numbers move)
    pub fn sig(&self) -> String {
        let file = self.loc.rsplit('/').next().unwrap_or("").split(':').next().unwrap_or("");
        // message head, cut at the first quote/backtick (input-dependent text) with digits masked
        let cut = self.msg.split(|c| c == '`' || c == '"').next().unwrap_or("");
        let head: String = cut
            .chars()
            .take(48)
            .map(|c| if c.is_whitespace() { '_' } else if c.is_ascii_digit() { '#' } else { c })
            .collect();
        format!("panic@{}:{}", file, head)
    }
}

// ---------------------------------------------------------------------------------------
// PeerCrypto-level helpers ("PC level": real handshake objects, no node)

use smallvec::smallvec;
use vpncloud::crypto::{Config as CryptoConfig, Crypto, MessageResult, PeerCrypto};
use vpncloud::messages::NodeInfo;
use vpncloud::types::NodeId;
use vpncloud::util::MsgBuffer;

pub const SPACE: usize = 100;

pub fn node_id(n: u8) -> NodeId {
    let mut id = [0u8; 16];
    id[0] = n;
    id[15] = n ^ 0x5a;
    id[7] = 0xc3;
    id
}

/// A distinctive NodeInfo payload for node n.
pub fn node_info(n: u8) -> NodeInfo {
    NodeInfo {
        node_id: node_id(n),
        peers: smallvec![],
        claims: smallvec![format!("10.{}.0.0/16", n).parse().unwrap()],
        peer_timeout: Some(300 + n as u16),
        addrs: smallvec![format!("[::]:{}", 1000 + n as u16).parse().unwrap()],
    }
}

pub fn new_buf() -> Box<MsgBuffer> {
    Box::new(MsgBuffer::new(SPACE))
}

#[derive(Debug)]
pub enum HsOutcome {
    /// both ends completed; payloads received by (a, b)
    Done(Box<NodeInfo>, Box<NodeInfo>),
    /// some step returned an error (step index, error text)
    Failed(usize, String),
}

/// In-order, loss-free 3-way handshake a -> b. Does not panic on errors.
pub fn simple_handshake(a: &mut PeerCrypto<NodeInfo>, b: &mut PeerCrypto<NodeInfo>) -> HsOutcome {
    let mut buf = new_buf();
    if let Err(e) = a.initialize(&mut buf) {
        return HsOutcome::Failed(0, e.to_string());
    }
    match b.handle_message(&mut buf) {
        Ok(MessageResult::Reply) => {}
        Ok(o) => return HsOutcome::Failed(1, format!("unexpected result {:?}", o)),
        Err(e) => return HsOutcome::Failed(1, e.to_string()),
    }
    let from_b = match a.handle_message(&mut buf) {
        Ok(MessageResult::InitializedWithReply(p)) => p,
        Ok(o) => return HsOutcome::Failed(2, format!("unexpected result {:?}", o)),
        Err(e) => return HsOutcome::Failed(2, e.to_string()),
    };
    let from_a = match b.handle_message(&mut buf) {
        Ok(MessageResult::InitializedWithReply(p)) => {
            // rotation reply goes back to a
            match a.handle_message(&mut buf) {
                Ok(MessageResult::None) => {}
                Ok(o) => return HsOutcome::Failed(4, format!("unexpected result {:?}", o)),
                Err(e) => return HsOutcome::Failed(4, e.to_string()),
            }
            p
        }
        Ok(MessageResult::Initialized(p)) => p,
        Ok(o) => return HsOutcome::Failed(3, format!("unexpected result {:?}", o)),
        Err(e) => return HsOutcome::Failed(3, e.to_string()),
    };
    HsOutcome::Done(Box::new(from_b), Box::new(from_a))
}

pub fn crypto_from(cfg: &CryptoConfig, id: NodeId) -> Result<Crypto, String> {
    Crypto::new(id, cfg).map_err(|e| e.to_string())
}

// ---------------------------------------------------------------------------------------
// Counting allocator: records the largest single request per thread (C16: no oversized allocation)

use std::alloc::{GlobalAlloc, Layout, System};
use std::cell::Cell;

pub struct CountingAlloc;

thread_local! {
    static MAX_ALLOC: Cell<usize> = const { Cell::new(0) };
}

unsafe impl GlobalAlloc for CountingAlloc {
    unsafe fn alloc(&self, layout: Layout) -> *mut u8 {
        let _ = MAX_ALLOC.try_with(|m| {
            if layout.size() > m.get() {
                m.set(layout.size())
            }
        });
        System.alloc(layout)
    }
    unsafe fn dealloc(&self, ptr: *mut u8, layout: Layout) {
        System.dealloc(ptr, layout)
    }
    unsafe fn alloc_zeroed(&self, layout: Layout) -> *mut u8 {
        let _ = MAX_ALLOC.try_with(|m| {
            if layout.size() > m.get() {
                m.set(layout.size())
            }
        });
        System.alloc_zeroed(layout)
    }
    unsafe fn realloc(&self, ptr: *mut u8, layout: Layout, new_size: usize) -> *mut u8 {
        let _ = MAX_ALLOC.try_with(|m| {
            if new_size > m.get() {
                m.set(new_size)
            }
        });
        System.realloc(ptr, layout, new_size)
    }
}

#[global_allocator]
static GLOBAL: CountingAlloc = CountingAlloc;

/// Runs f and returns (result, largest single allocation request made by this thread meanwhile).
pub fn with_alloc_watch<T>(f: impl FnOnce() -> T) -> (T, usize) {
    MAX_ALLOC.with(|m| m.set(0));
    let r = f();
    let m = MAX_ALLOC.with(|m| m.get());
    (r, m)
}
