#![no_main]
// The body of this target (decoding of the bytes into structured arguments + the semantic oracle)
// lives in vverif::targets so that vcheck can replay saved inputs through the very same function.
use libfuzzer_sys::fuzz_target;
fuzz_target!(|data: &[u8]| {
    vverif::targets::fuzz_entry("node_datagrams", data);
});
