#![no_main]
// The body of this target (decoding of the bytes into an operation history + the property's oracle)
// lives in vverif::targets so that vcheck can replay saved inputs through the very same function.
use libfuzzer_sys::fuzz_target;
fuzz_target!(|data: &[u8]| {
    vverif::targets::fuzz_entry("hist_c13", data);
});
